package main

import (
	"fmt"
	"regexp"
	"sort"
	"strconv"
	"strings"
	"sync"
	"sync/atomic"
	"time"

	imap "github.com/emersion/go-imap/v2"
	"github.com/emersion/go-imap/v2/verif/refmodel"
	"github.com/emersion/go-imap/v2/verif/srvkit"
	"github.com/emersion/go-imap/v2/verif/vk"
)

// ---------- the fixed store of part B ----------

type bMsg struct {
	c     int    // corpus index
	flags string // wire form given to APPEND
	date  string // INTERNALDATE given to APPEND
	drop  bool   // dummy message, flagged \Deleted and expunged to create UID gaps
}

type bBox struct {
	name  string
	plan  []bMsg
	msgs  []*refmodel.Msg // model messages after set-up (seq/uid filled)
	cidx  []int           // corpus index per message
	saved imap.UIDSet     // what "$" holds after the SAVE query of the set-up
}

var bDates = []string{
	"10-Mar-2024 13:00:00 +0000", " 9-Mar-2024 23:30:00 -0500", "11-Mar-2024 00:30:00 +0900",
	"10-Mar-2024 00:00:00 +0000", "10-Mar-2024 23:59:59 +0000", " 8-Mar-2024 12:00:00 +0000",
}

func bStorePlan() []*bBox {
	return []*bBox{
		{name: "INBOX", plan: []bMsg{
			{c: 0, flags: "\\Seen", date: bDates[0]},
			{c: 1, flags: "\\Answered \\Flagged kw", date: bDates[1]},
			{c: 2, flags: "", date: bDates[2]},
			{c: 3, flags: "\\Deleted \\Seen", date: bDates[3]},
			{c: 4, flags: "\\Draft", date: bDates[4]},
			{c: 5, flags: "KW \\seen", date: bDates[5]},
		}},
		{name: "Gaps", plan: []bMsg{
			{c: 4, drop: true, date: bDates[0]},
			{c: 5, flags: "\\Seen", date: bDates[2]},
			{c: 3, flags: "", date: bDates[1]},
			{c: 4, drop: true, date: bDates[0]},
			{c: 1, flags: "\\Deleted", date: bDates[0]},
			{c: 4, drop: true, date: bDates[0]},
			{c: 0, flags: "kw \\Flagged", date: bDates[5]},
			{c: 4, flags: "\\Seen \\Answered", date: bDates[3]},
			{c: 2, flags: "\\Draft \\seen", date: bDates[4]},
		}},
		{name: "Empty"},
	}
}

var bExtraNames = []string{"A", "A/x", "A/x/y", "Ab", "B/x"}
var bSubscribed = []string{"A/x", "Empty", "Ab"}

// the SAVE query of the set-up: "$" = messages that are \Seen or larger than 250 octets
const bSaveQuery = "SEARCH RETURN (SAVE) OR SEEN LARGER 250"

func internalOf(s string) time.Time {
	t, err := time.Parse(dateLayout, s)
	if err != nil {
		panic(err)
	}
	return t
}

// buildStore fills a fresh server through a set-up connection and returns the model of it.
func buildStore(srv *server) []*bBox {
	boxes := bStorePlan()
	c := srv.dial("setup")
	defer c.hangup()
	must := func(cmd string) reply {
		r := c.do(expandCmd(cmd))
		if r.problem != "" || r.status != "OK" {
			run.EngineError("part B set-up %q failed: %+v", cmd, r.raw)
		}
		return r
	}
	for _, b := range boxes {
		if b.name != "INBOX" {
			must("CREATE " + b.name)
		}
		uid := uint32(0)
		var dropUIDs []string
		for _, p := range b.plan {
			uid++
			fl := p.flags
			if p.drop {
				fl = "\\Deleted"
				dropUIDs = append(dropUIDs, strconv.Itoa(int(uid)))
			}
			must(fmt.Sprintf("APPEND %s (%s) \"%s\" %%M%d%%", b.name, fl, p.date, p.c))
			if p.drop {
				continue
			}
			cm := corpus[p.c]
			m := &refmodel.Msg{UID: uid, Internal: internalOf(p.date), Sent: cm.sentTime(), Size: int64(len(cm.raw)),
				Flags: strings.Fields(p.flags), Header: cm.header, Body: cm.body, Text: cm.raw}
			b.msgs = append(b.msgs, m)
			b.cidx = append(b.cidx, p.c)
		}
		for i, m := range b.msgs {
			m.Seq = uint32(i + 1)
		}
		if len(dropUIDs) > 0 {
			must("SELECT " + b.name)
			must("UID EXPUNGE " + strings.Join(dropUIDs, ","))
			must("UNSELECT")
		}
	}
	for _, n := range bExtraNames {
		must("CREATE " + n)
	}
	for _, n := range bSubscribed {
		must("SUBSCRIBE " + n)
	}
	for _, b := range boxes {
		for _, m := range b.msgs {
			if hasFlagCI(m.Flags, "\\Seen") || m.Size > 250 {
				b.saved.AddNum(imap.UID(m.UID))
			}
		}
	}
	return boxes
}

func hasFlagCI(fl []string, f string) bool {
	for _, x := range fl {
		if strings.EqualFold(x, f) {
			return true
		}
	}
	return false
}

// ---------- generic pipelined runner with crash recovery ----------

type bconn struct {
	srv  *server
	c    *conn
	box  string
	save bool
}

func (b *bconn) open() {
	b.c = b.srv.dial("b")
	if b.box != "" {
		r := b.c.do("SELECT " + b.box)
		if r.status != "OK" {
			run.EngineError("part B: SELECT %s failed: %q", b.box, r.raw)
		}
		if b.save {
			if r := b.c.do(bSaveQuery); r.status != "OK" {
				run.EngineError("part B: SAVE query failed: %q", r.raw)
			}
		}
	}
}

// runBatch sends cmds pipelined in one segment; result i has problem != "" when the command
// killed the connection (then a new connection is opened and the rest is re-sent).
func (b *bconn) runBatch(cmds []string) []reply {
	out := make([]reply, len(cmds))
	start := 0
	for start < len(cmds) {
		if b.c == nil || b.c.closed {
			b.open()
		}
		var sb strings.Builder
		tags := make([]string, len(cmds))
		for i := start; i < len(cmds); i++ {
			b.c.n++
			tags[i] = fmt.Sprintf("%s%d", b.c.prefix, b.c.n)
			sb.WriteString(tags[i] + " " + cmds[i] + "\r\n")
		}
		b.c.p.SendString(sb.String())
		raw, closed, err := b.c.p.Quiesce()
		if err != nil {
			run.EngineError("part B watchdog: %v", err)
		}
		resps, rest, perr := srvkit.ParseResponses(raw)
		cur := start
		var acc []srvkit.Resp
		var accRaw strings.Builder
		for _, r := range resps {
			if cur >= len(cmds) {
				break
			}
			acc = append(acc, r)
			accRaw.Write(r.Raw)
			if r.Tag == "*" || r.Tag == "+" {
				continue
			}
			rp := reply{tag: tags[cur], cmd: cmds[cur], resps: acc, raw: accRaw.String()}
			if r.Tag != tags[cur] {
				rp.problem = "wrong-tag"
			} else {
				w := strings.SplitN(r.Text, " ", 2)
				rp.status = strings.ToUpper(w[0])
				if len(w) > 1 {
					rp.text = w[1]
				}
				if rp.status != "OK" && rp.status != "NO" && rp.status != "BAD" {
					rp.problem = "bad-status-word"
				}
			}
			out[cur] = rp
			cur++
			acc = nil
			accRaw.Reset()
		}
		if cur == len(cmds) && !closed && perr == nil && len(rest) == 0 && len(acc) == 0 {
			return out
		}
		if cur >= len(cmds) {
			// everything answered but trailing garbage or close: attribute to the last command
			out[len(cmds)-1].problem = "trailing-output-or-close"
			return out
		}
		// command cur did not complete
		rp := reply{tag: tags[cur], cmd: cmds[cur], resps: acc, raw: accRaw.String() + string(rest)}
		switch {
		case closed:
			rp.problem = "connection-closed"
		case perr != nil:
			rp.problem = "malformed-output"
		default:
			rp.problem = "no-tagged-reply"
		}
		if pl := b.srv.panics(); len(pl) > b.srv.seenPanics {
			rp.panicLog = pl[len(pl)-1]
			b.srv.seenPanics = len(pl)
		}
		out[cur] = rp
		b.c.hangup()
		b.c.closed = true
		start = cur + 1
	}
	return out
}

// panicKey maps what the server log says to a stable key.
func panicKey(one string, fallback string) string {
	for _, l := range []string{one} {
		switch {
		case strings.Contains(l, "slice bounds out of range"):
			return "fetch-partial-overflow-panic"
		case strings.Contains(l, "BodyStructureMultiPart must have at least one child"):
			return "bodystructure-empty-multipart-panic"
		case strings.Contains(l, "nil pointer dereference") && strings.Contains(l, "writeStatus"):
			return "status-deleted-storage-panic"
		}
	}
	return fallback
}

type bStats struct {
	searchCmds, searchNonEmpty, fetchCmds, fetchCompared, fetchMissing, fetchUnspecified, listCmds, miscCmds int64
	crashes                                                                                                  int64
}

var bst bStats
var bViol sync.Map // key → *int64

// bViolation records a part-B violation. The artefact kept per key is the one with the shortest
// (then lexicographically smallest) script, so that the result does not depend on worker timing;
// flushBViolations re-executes it before reporting.
type bCand struct {
	rank string
	det  map[string]interface{}
}

var bCandMu sync.Mutex
var bCands = map[string]bCand{}

func bViolation(key string, det map[string]interface{}) {
	v, _ := bViol.LoadOrStore(key, new(int64))
	atomic.AddInt64(v.(*int64), 1)
	sc, _ := det["script"].(script)
	last := ""
	var all []string
	for _, st := range sc.Steps {
		all = append(all, st.Cmd)
		last = st.Cmd
	}
	_ = last
	rank := fmt.Sprintf("%06d|%s", len(strings.Join(all, "|")), strings.Join(all, "|"))
	bCandMu.Lock()
	if c, ok := bCands[key]; !ok || rank < c.rank {
		bCands[key] = bCand{rank, det}
	}
	bCandMu.Unlock()
}

var tagRe = regexp.MustCompile(`(^|\n|\(TAG )[a-z]+[0-9_]+`)

var parenRe = regexp.MustCompile(`\(([^()]*)\)`)

// normReply removes what legitimately differs between two executions: tags, and the order of
// the items inside a parenthesised list (flag lists come out of a Go map).
func normReply(raw string) string {
	raw = tagRe.ReplaceAllString(raw, "${1}T")
	return parenRe.ReplaceAllStringFunc(raw, func(g string) string {
		w := strings.Fields(g[1 : len(g)-1])
		sort.Strings(w)
		return "(" + strings.Join(w, " ") + ")"
	})
}

// replyOfScript runs a part-B script on a fresh store and returns the raw reply of every step.
func replyOfScript(sc script) []string {
	srv := newServer("INBOX")
	defer srv.close()
	buildStore(srv)
	c := srv.dial("s0_")
	defer c.hangup()
	var out []string
	for _, st := range sc.Steps {
		r := c.do(expandCmd(st.Cmd))
		out = append(out, normReply(r.raw)+"|"+r.problem)
		if c.closed {
			c = srv.dial("s0_")
		}
	}
	return out
}

func flushBViolations() {
	bCandMu.Lock()
	defer bCandMu.Unlock()
	var keys []string
	for k := range bCands {
		keys = append(keys, k)
	}
	sort.Strings(keys)
	for _, k := range keys {
		c := bCands[k]
		if sc, ok := c.det["script"].(script); ok {
			first := replyOfScript(sc)
			for i := 0; i < 3; i++ {
				if again := replyOfScript(sc); strings.Join(again, "\x00") != strings.Join(first, "\x00") {
					run.EngineError("part B counterexample for %s is not reproducible: %q vs %q", k, first, again)
				}
			}
			c.det["re_execution"] = first
		}
		run.Violation(k, c.det)
	}
}

func bScript(box string, save bool, cmds ...string) script {
	s := script{Kind: "query", Note: "part B store; built by the set-up of partb.go"}
	if box != "" {
		s.Steps = append(s.Steps, step{0, "SELECT " + box})
		if save {
			s.Steps = append(s.Steps, step{0, bSaveQuery})
		}
	}
	for _, c := range cmds {
		s.Steps = append(s.Steps, step{0, c})
	}
	return s
}

// ---------- SEARCH ----------

type skey struct {
	wire  string
	class string
	eval  func(m *refmodel.Msg) bool
}

func leaf(wire string, c imap.SearchCriteria) skey {
	cc := c
	class := strings.Fields(wire)[0]
	if class[0] == '*' || (class[0] >= '0' && class[0] <= '9') {
		class = "seqset"
	}
	return skey{wire: wire, class: class, eval: func(m *refmodel.Msg) bool { return refmodel.Match(&cc, m) }}
}

func searchLeaves(b *bBox) []skey {
	n := uint32(len(b.msgs))
	seq := func(a, z uint32) []imap.SeqSet { var s imap.SeqSet; s.AddRange(a, z); return []imap.SeqSet{s} }
	uid := func(a, z uint32) []imap.UIDSet {
		var s imap.UIDSet
		s.AddRange(imap.UID(a), imap.UID(z))
		return []imap.UIDSet{s}
	}
	var lastUID uint32
	if n > 0 {
		lastUID = b.msgs[n-1].UID
	}
	flag := func(f string) imap.SearchCriteria { return imap.SearchCriteria{Flag: []imap.Flag{imap.Flag(f)}} }
	nflag := func(f string) imap.SearchCriteria { return imap.SearchCriteria{NotFlag: []imap.Flag{imap.Flag(f)}} }
	hdr := func(k, v string) imap.SearchCriteria {
		return imap.SearchCriteria{Header: []imap.SearchCriteriaHeaderField{{Key: k, Value: v}}}
	}
	day := func(d int) time.Time { return time.Date(2024, time.March, d, 0, 0, 0, 0, time.UTC) }
	ds := func(d int) string { return fmt.Sprintf("%d-Mar-2024", d) }
	ks := []skey{
		leaf("ALL", imap.SearchCriteria{}),
		leaf("SEEN", flag("\\Seen")), leaf("UNSEEN", nflag("\\Seen")),
		leaf("DELETED", flag("\\Deleted")), leaf("UNDELETED", nflag("\\Deleted")),
		leaf("ANSWERED", flag("\\Answered")), leaf("UNFLAGGED", nflag("\\Flagged")),
		leaf("DRAFT", flag("\\Draft")), leaf("FLAGGED", flag("\\Flagged")),
		leaf("RECENT", flag("\\Recent")), leaf("OLD", nflag("\\Recent")),
		leaf("NEW", imap.SearchCriteria{Flag: []imap.Flag{"\\Recent"}, NotFlag: []imap.Flag{"\\Seen"}}),
		leaf("KEYWORD kw", flag("kw")), leaf("UNKEYWORD KW", nflag("KW")), leaf("KEYWORD nokw", flag("nokw")),
		leaf("UID 2", imap.SearchCriteria{UID: uid(2, 2)}),
		leaf("UID 3:8", imap.SearchCriteria{UID: uid(3, 8)}),
		leaf("UID 1,5:6", imap.SearchCriteria{UID: []imap.UIDSet{func() imap.UIDSet { var s imap.UIDSet; s.AddNum(1); s.AddRange(5, 6); return s }()}}),
		leaf("1", imap.SearchCriteria{SeqNum: seq(1, 1)}),
		leaf("2:4", imap.SearchCriteria{SeqNum: seq(2, 4)}),
		leaf("7", imap.SearchCriteria{SeqNum: seq(7, 7)}),
		leaf("$", imap.SearchCriteria{UID: []imap.UIDSet{b.saved}}),
		leaf("SMALLER 273", imap.SearchCriteria{Smaller: 273}), leaf("SMALLER 274", imap.SearchCriteria{Smaller: 274}), leaf("SMALLER 275", imap.SearchCriteria{Smaller: 275}),
		leaf("LARGER 273", imap.SearchCriteria{Larger: 273}), leaf("LARGER 274", imap.SearchCriteria{Larger: 274}), leaf("LARGER 275", imap.SearchCriteria{Larger: 275}),
		leaf("HEADER Subject \"\"", hdr("Subject", "")),
		leaf("HEADER X-Empty \"\"", hdr("X-Empty", "")),
		leaf("HEADER x-nope \"\"", hdr("x-nope", "")),
		leaf("HEADER SUBJECT hello", hdr("SUBJECT", "hello")),
		leaf("HEADER X-Folded \"first second\"", hdr("X-Folded", "first second")),
		leaf("FROM alice", hdr("From", "alice")), leaf("TO bob", hdr("To", "bob")), leaf("CC \"bob@\"", hdr("Cc", "bob@")),
		leaf("BCC x", hdr("Bcc", "x")), leaf("SUBJECT REPORT", hdr("Subject", "REPORT")),
		leaf("BODY fox", imap.SearchCriteria{Body: []string{"fox"}}),
		leaf("BODY \"inner body text\"", imap.SearchCriteria{Body: []string{"inner body text"}}),
		leaf("BODY LAZY", imap.SearchCriteria{Body: []string{"LAZY"}}),
		leaf("TEXT {5+}\r\nQUICK", imap.SearchCriteria{Text: []string{"QUICK"}}),
		leaf("TEXT alice@example.org", imap.SearchCriteria{Text: []string{"alice@example.org"}}),
		leaf("TEXT no-such-text", imap.SearchCriteria{Text: []string{"no-such-text"}}),
	}
	if n > 0 {
		// '*' needs a non-empty mailbox to mean anything
		ks = append(ks,
			leaf("*", imap.SearchCriteria{SeqNum: seq(n, n)}),
			leaf("5:*", imap.SearchCriteria{SeqNum: seq(min32(5, n), max32(5, n))}),
			leaf("UID 8:*", imap.SearchCriteria{UID: uid(min32(8, lastUID), max32(8, lastUID))}),
			leaf("UID *", imap.SearchCriteria{UID: uid(lastUID, lastUID)}),
		)
	}
	for _, d := range []int{9, 10, 11} {
		ks = append(ks,
			leaf("SINCE "+ds(d), imap.SearchCriteria{Since: day(d)}),
			leaf("BEFORE "+ds(d), imap.SearchCriteria{Before: day(d)}),
			leaf("ON "+ds(d), imap.SearchCriteria{Since: day(d), Before: day(d + 1)}),
			leaf("SENTSINCE "+ds(d), imap.SearchCriteria{SentSince: day(d)}),
			leaf("SENTBEFORE "+ds(d), imap.SearchCriteria{SentBefore: day(d)}),
			leaf("SENTON "+ds(d), imap.SearchCriteria{SentSince: day(d), SentBefore: day(d + 1)}),
		)
	}
	return ks
}

func min32(a, b uint32) uint32 {
	if a < b {
		return a
	}
	return b
}
func max32(a, b uint32) uint32 {
	if a > b {
		return a
	}
	return b
}

type squery struct {
	wire    string
	classes []string
	eval    func(m *refmodel.Msg) bool
}

func and(a, b skey) squery {
	return squery{a.wire + " " + b.wire, []string{a.class, b.class}, func(m *refmodel.Msg) bool { return a.eval(m) && b.eval(m) }}
}

// searchQueries builds the query family over leaves ks; sub = indices of the representative
// subset used for the cubic forms.
func searchQueries(ks []skey, sub []int, deep bool) []squery {
	var qs []squery
	for _, a := range ks {
		a := a
		qs = append(qs, squery{a.wire, []string{a.class}, a.eval})
		qs = append(qs, squery{"NOT " + a.wire, []string{"NOT", a.class}, func(m *refmodel.Msg) bool { return !a.eval(m) }})
		qs = append(qs, squery{"NOT NOT " + a.wire, []string{"NOT", "NOT", a.class}, a.eval})
		qs = append(qs, squery{"(" + a.wire + ")", []string{"()", a.class}, a.eval})
	}
	for _, a := range ks {
		for _, b := range ks {
			a, b := a, b
			qs = append(qs, and(a, b))
			qs = append(qs, squery{"OR " + a.wire + " " + b.wire, []string{"OR", a.class, b.class}, func(m *refmodel.Msg) bool { return a.eval(m) || b.eval(m) }})
		}
	}
	if !deep {
		return qs
	}
	for _, a := range ks {
		for _, b := range ks {
			a, b := a, b
			qs = append(qs,
				squery{"NOT (" + a.wire + " " + b.wire + ")", []string{"NOT", "()", a.class, b.class}, func(m *refmodel.Msg) bool { return !(a.eval(m) && b.eval(m)) }},
				squery{"NOT OR " + a.wire + " " + b.wire, []string{"NOT", "OR", a.class, b.class}, func(m *refmodel.Msg) bool { return !(a.eval(m) || b.eval(m)) }},
				squery{"OR NOT " + a.wire + " " + b.wire, []string{"OR", "NOT", a.class, b.class}, func(m *refmodel.Msg) bool { return !a.eval(m) || b.eval(m) }},
				squery{"OR " + a.wire + " NOT " + b.wire, []string{"OR", "NOT", a.class, b.class}, func(m *refmodel.Msg) bool { return a.eval(m) || !b.eval(m) }},
			)
		}
	}
	for _, i := range sub {
		for _, j := range sub {
			for _, k := range sub {
				a, b, c := ks[i], ks[j], ks[k]
				qs = append(qs,
					squery{"OR (" + a.wire + " " + b.wire + ") " + c.wire, []string{"OR", "()", a.class, b.class, c.class}, func(m *refmodel.Msg) bool { return (a.eval(m) && b.eval(m)) || c.eval(m) }},
					squery{"OR " + a.wire + " OR " + b.wire + " " + c.wire, []string{"OR", "OR", a.class, b.class, c.class}, func(m *refmodel.Msg) bool { return a.eval(m) || b.eval(m) || c.eval(m) }},
					squery{a.wire + " OR " + b.wire + " " + c.wire, []string{"OR", a.class, b.class, c.class}, func(m *refmodel.Msg) bool { return a.eval(m) && (b.eval(m) || c.eval(m)) }},
					squery{a.wire + " " + b.wire + " " + c.wire, []string{a.class, b.class, c.class}, func(m *refmodel.Msg) bool { return a.eval(m) && b.eval(m) && c.eval(m) }},
				)
			}
		}
	}
	return qs
}

type esearch struct {
	uid                bool
	all                []uint32
	hasAll             bool
	min, max, count    uint32
	hasMin, hasMax, hc bool
	tagOK              bool
}

func parseESearch(r srvkit.Resp, tag string) (*esearch, bool) {
	v, err := parseSexps(r.Text, r.Literals)
	if err != nil || len(v) == 0 || v[0].atom != "ESEARCH" {
		return nil, false
	}
	e := &esearch{}
	i := 1
	if i < len(v) && v[i].kind == '(' {
		if len(v[i].list) == 2 && strings.EqualFold(v[i].list[0].atom, "TAG") && v[i].list[1].atom == tag {
			e.tagOK = true
		}
		i++
	}
	if i < len(v) && v[i].atom == "UID" {
		e.uid = true
		i++
	}
	for ; i+1 < len(v); i += 2 {
		switch strings.ToUpper(v[i].atom) {
		case "ALL":
			l, ok := parseSet(v[i+1].atom)
			if !ok {
				return nil, false
			}
			e.all, e.hasAll = l, true
		case "MIN":
			e.min, e.hasMin = atoiU32(v[i+1].atom), true
		case "MAX":
			e.max, e.hasMax = atoiU32(v[i+1].atom), true
		case "COUNT":
			e.count, e.hc = atoiU32(v[i+1].atom), true
		default:
			return nil, false
		}
	}
	return e, i == len(v)
}

func atoiU32(s string) uint32 { n, _ := u32(s); return n }

func searchKeyOf(q squery, what string) string {
	cl := append([]string{}, q.classes...)
	sort.Strings(cl)
	// collapse repeats
	var u []string
	for _, c := range cl {
		if len(u) == 0 || u[len(u)-1] != c {
			u = append(u, c)
		}
	}
	return "search-" + what + ":" + strings.Join(u, "+")
}

func partBSearch(thorough bool) {
	type job struct {
		box         int
		uidFlavour  bool
		esearchForm bool
		qs          []squery
	}
	var jobs []job
	probeBoxes := bStorePlan()
	// leaves need the model messages: build one store to get them
	srv0 := newServer("INBOX")
	boxes0 := buildStore(srv0)
	srv0.close()
	_ = probeBoxes
	var nLeaves int
	for bi, b := range boxes0 {
		ks := searchLeaves(b)
		nLeaves = len(ks)
		// representative subset for the cubic forms: one key per class
		seen := map[string]bool{}
		var sub []int
		for i, k := range ks {
			if !seen[k.class] || strings.HasPrefix(k.wire, "UID *") || k.wire == "*" {
				seen[k.class] = true
				sub = append(sub, i)
			}
		}
		if !thorough && len(sub) > 14 {
			// quick: thin the subset deterministically
			var thin []int
			for i, x := range sub {
				if i%3 == 0 {
					thin = append(thin, x)
				}
			}
			sub = thin
		}
		for _, uidF := range []bool{false, true} {
			for _, es := range []bool{false, true} {
				deep := thorough || (!uidF && !es)
				jobs = append(jobs, job{bi, uidF, es, searchQueries(ks, sub, deep)})
			}
		}
	}
	run.Set("B_search_leaf_keys", int64(nLeaves))
	// split jobs into chunks for the workers
	type chunk struct {
		j      *job
		lo, hi int
	}
	var chunks []chunk
	const per = 400
	for ji := range jobs {
		j := &jobs[ji]
		for lo := 0; lo < len(j.qs); lo += per {
			hi := lo + per
			if hi > len(j.qs) {
				hi = len(j.qs)
			}
			chunks = append(chunks, chunk{j, lo, hi})
		}
	}
	var next int64 = -1
	var wg sync.WaitGroup
	nw := workers() / 2
	for w := 0; w < nw; w++ {
		wg.Add(1)
		go func() {
			defer wg.Done()
			srv := newServer("INBOX")
			defer srv.close()
			boxes := buildStore(srv)
			conns := map[string]*bconn{}
			for {
				ci := int(atomic.AddInt64(&next, 1))
				if ci >= len(chunks) {
					break
				}
				ch := chunks[ci]
				b := boxes[ch.j.box]
				bc := conns[b.name]
				if bc == nil {
					bc = &bconn{srv: srv, box: b.name, save: true}
					conns[b.name] = bc
				}
				var cmds []string
				for _, q := range ch.j.qs[ch.lo:ch.hi] {
					c := "SEARCH "
					if ch.j.uidFlavour {
						c = "UID SEARCH "
					}
					if ch.j.esearchForm {
						c += "RETURN (MIN MAX COUNT ALL) "
					}
					cmds = append(cmds, c+q.wire)
				}
				rs := bc.runBatch(cmds)
				for i, r := range rs {
					checkSearch(srv, b, ch.j.uidFlavour, ch.j.esearchForm, ch.j.qs[ch.lo+i], r)
				}
			}
			for _, bc := range conns {
				if bc.c != nil {
					bc.c.hangup()
				}
			}
		}()
	}
	wg.Wait()
	flushSearchFailures()
}

// SEARCH failures are collected and keyed at the end: a failing combination that contains a leaf
// key which already fails on its own is attributed to that leaf (one key per defect).
type sfail struct {
	q    squery
	what string
	det  map[string]interface{}
}

var sfailMu sync.Mutex
var sfails []sfail
var sfailTotal int64

func searchFailure(q squery, what string, det map[string]interface{}) {
	sfailMu.Lock()
	defer sfailMu.Unlock()
	sfailTotal++
	if len(sfails) < 20000 {
		sfails = append(sfails, sfail{q, what, det})
	}
}

var combinators = []string{"OR", "NOT", "()"}

var combTotal [3]int64 // queries containing each combinator

func flushSearchFailures() {
	sfailMu.Lock()
	defer sfailMu.Unlock()
	sort.SliceStable(sfails, func(i, j int) bool {
		if len(sfails[i].q.classes) != len(sfails[j].q.classes) {
			return len(sfails[i].q.classes) < len(sfails[j].q.classes)
		}
		return sfails[i].q.wire < sfails[j].q.wire
	})
	isComb := func(c string) int {
		for i, x := range combinators {
			if x == c {
				return i
			}
		}
		return -1
	}
	single := map[string]bool{}
	var combFail [3]int64
	for _, f := range sfails {
		if f.what != "result-set" {
			continue
		}
		if len(f.q.classes) == 1 {
			single[f.q.classes[0]] = true
		}
		seen := [3]bool{}
		for _, c := range f.q.classes {
			if i := isComb(c); i >= 0 && !seen[i] {
				seen[i] = true
				combFail[i]++
			}
		}
	}
	for _, f := range sfails {
		if f.what != "result-set" {
			// a property of the response form, not of the keys
			bViolation("search-"+f.what, f.det)
			continue
		}
		key := ""
		for _, c := range f.q.classes {
			if single[c] && isComb(c) < 0 {
				key = "search-mismatch:" + c // a leaf key that is already wrong on its own
				break
			}
		}
		if key == "" {
			for i, c := range combinators {
				has := false
				for _, x := range f.q.classes {
					if x == c {
						has = true
					}
				}
				// a combinator that goes wrong in a large share of its uses is the defect
				if has && combFail[i]*20 >= atomic.LoadInt64(&combTotal[i]) {
					key = "search-mismatch:" + c
					break
				}
			}
		}
		if key == "" {
			key = searchKeyOf(f.q, "mismatch")
		}
		bViolation(key, f.det)
	}
}

func checkSearch(srv *server, b *bBox, uidF, es bool, q squery, r reply) {
	atomic.AddInt64(&bst.searchCmds, 1)
	{
		seen := [3]bool{}
		for _, c := range q.classes {
			for i, x := range combinators {
				if x == c && !seen[i] {
					seen[i] = true
					atomic.AddInt64(&combTotal[i], 1)
				}
			}
		}
	}
	det := func(extra map[string]interface{}) map[string]interface{} {
		d := map[string]interface{}{"script": bScript(b.name, true, r.cmd), "mailbox": b.name, "reply": r.raw}
		for k, v := range extra {
			d[k] = v
		}
		return d
	}
	if r.problem != "" {
		atomic.AddInt64(&bst.crashes, 1)
		bViolation(panicKey(r.panicLog, searchKeyOf(q, "crash-or-framing:"+r.problem)), det(map[string]interface{}{"server_log": r.panicLog}))
		return
	}
	if r.status != "OK" {
		searchFailure(q, "refused", det(nil))
		return
	}
	var want []uint32
	for _, m := range b.msgs {
		if q.eval(m) {
			if uidF {
				want = append(want, m.UID)
			} else {
				want = append(want, m.Seq)
			}
		}
	}
	if len(want) > 0 && len(want) < len(b.msgs) {
		atomic.AddInt64(&bst.searchNonEmpty, 1)
	}
	var got []uint32
	bad, kind := "", "result-set"
	if !es {
		l := r.untagged("SEARCH")
		if len(l) != 1 {
			bad, kind = fmt.Sprintf("%d SEARCH responses", len(l)), "response-shape"
		} else {
			for _, w := range l[0].Words()[1:] {
				n, ok := u32(w)
				if !ok {
					bad, kind = "unparsable SEARCH response", "response-shape"
				}
				got = append(got, n)
			}
			sort.Slice(got, func(i, j int) bool { return got[i] < got[j] })
		}
	} else {
		l := r.untagged("ESEARCH")
		if len(l) != 1 {
			bad, kind = fmt.Sprintf("%d ESEARCH responses", len(l)), "response-shape"
		} else if e, ok := parseESearch(l[0], r.tag); !ok {
			bad, kind = "unparsable ESEARCH response", "response-shape"
		} else {
			got = e.all
			switch {
			case !e.tagOK:
				bad, kind = "ESEARCH without the command's TAG", "esearch-tag"
			case e.uid != uidF:
				bad, kind = "ESEARCH UID indicator wrong", "esearch-uid-indicator"
			case joinU32(got) != joinU32(want):
				// reported below as a result-set difference
			case !e.hc || e.count != uint32(len(want)):
				bad, kind = fmt.Sprintf("COUNT %d (present=%v), model says %d", e.count, e.hc, len(want)), "esearch-count"
			case len(want) == 0 && (e.hasAll || e.hasMin || e.hasMax):
				bad, kind = "ALL/MIN/MAX present although nothing matches", "esearch-min-max"
			case len(want) > 0 && (!e.hasMin || !e.hasMax || e.min != want[0] || e.max != want[len(want)-1]):
				bad, kind = fmt.Sprintf("MIN %d MAX %d, model says %d %d", e.min, e.max, want[0], want[len(want)-1]), "esearch-min-max"
			}
		}
	}
	if bad == "" && joinU32(got) != joinU32(want) {
		bad = "result set differs"
	}
	if bad != "" {
		searchFailure(q, kind, det(map[string]interface{}{"got": got, "want": want, "problem": bad, "uid_flavour": uidF, "esearch": es}))
	}
}

// ---------- FETCH sections ----------

type fsection struct {
	path []int
	spec string // "", HEADER, TEXT, MIME, HEADER.FIELDS, HEADER.FIELDS.NOT
}

const fieldList = "(SUBJECT X-FOLDED NOPE)"

func (f fsection) canon() string {
	var p []string
	for _, n := range f.path {
		p = append(p, strconv.Itoa(n))
	}
	s := strings.Join(p, ".")
	sp := f.spec
	if sp == "HEADER.FIELDS" || sp == "HEADER.FIELDS.NOT" {
		sp += " " + fieldList
	}
	if sp != "" {
		if s != "" {
			s += "."
		}
		s += sp
	}
	return s
}

// sectionExpectation: exact content, a set of acceptable contents, or unspecified (nil, false).
func sectionExpectation(cm *corpusMsg, f fsection) (alts []string, specified bool) {
	k := f.canon()
	if v, ok := cm.sections[k]; ok {
		return []string{v}, true
	}
	if cm.name == "header-only" {
		switch k {
		case "HEADER":
			return []string{cm.raw, cm.raw + "\r\n"}, true
		case "HEADER.FIELDS " + fieldList:
			return []string{"Subject: only header\r\n", "Subject: only header\r\n\r\n"}, true
		case "HEADER.FIELDS.NOT " + fieldList:
			h := hdrMinus(cm.raw, "subject")
			return []string{h, h + "\r\n"}, true
		}
	}
	if cm.partMissing(f.path) {
		// the part does not exist: whatever the specifier, a server can only refuse or return
		// nothing (NIL or an empty string); data would belong to some other part
		return []string{""}, true
	}
	return nil, false
}

func (f fsection) pathText() string {
	var p []string
	for _, n := range f.path {
		p = append(p, strconv.Itoa(n))
	}
	return strings.Join(p, ".")
}

var bigOffsets = []int64{1 << 32, 1<<63 - 1}
var bigSizes = []int64{1 << 32, 1<<63 - 1}

type partial struct {
	has       bool
	off, size int64
}

func slicePartial(full string, p partial) string {
	if !p.has {
		return full
	}
	n := int64(len(full))
	if p.off >= n {
		return ""
	}
	end := n
	if p.size < n-p.off { // no overflow: compare the size with what is left
		end = p.off + p.size
	}
	return full[p.off:end]
}

func partBFetch(thorough bool) {
	paths := [][]int{nil, {1}, {2}, {1, 1}, {2, 1}, {3}, {1, 2, 3}, {3, 1}, {3, 2}, {4}}
	specs := []string{"", "HEADER", "TEXT", "MIME", "HEADER.FIELDS", "HEADER.FIELDS.NOT"}
	type job struct {
		box string
		seq int // sequence number in box
		ci  int
		f   fsection
	}
	var jobs []job
	plan := bStorePlan()
	for _, bx := range plan[:2] {
		seq := 0
		for _, p := range bx.plan {
			if p.drop {
				continue
			}
			seq++
			if bx.name == "Gaps" && !thorough && p.c != 2 && p.c != 4 {
				continue // quick: the second mailbox only re-checks addressing on two messages
			}
			for _, pa := range paths {
				for _, sp := range specs {
					jobs = append(jobs, job{bx.name, seq, p.c, fsection{pa, sp}})
				}
			}
		}
	}
	var next int64 = -1
	var wg sync.WaitGroup
	nw := workers() / 2
	for w := 0; w < nw; w++ {
		wg.Add(1)
		go func() {
			defer wg.Done()
			srv := newServer("INBOX")
			defer srv.close()
			buildStore(srv)
			conns := map[string]*bconn{}
			for {
				ji := int(atomic.AddInt64(&next, 1))
				if ji >= len(jobs) {
					break
				}
				j := jobs[ji]
				bc := conns[j.box]
				if bc == nil {
					bc = &bconn{srv: srv, box: j.box}
					conns[j.box] = bc
				}
				fetchSection(srv, bc, j.box, j.seq, corpus[j.ci], j.f)
			}
			for _, bc := range conns {
				if bc.c != nil {
					bc.c.hangup()
				}
			}
		}()
	}
	wg.Wait()
}

func fetchSection(srv *server, bc *bconn, box string, seq int, cm *corpusMsg, f fsection) {
	alts, specified := sectionExpectation(cm, f)
	// length used for the partial grid: the (first) expected content, or the raw size when unspecified
	ln := int64(len(cm.raw))
	if specified {
		ln = int64(len(alts[0]))
	}
	var parts []partial
	parts = append(parts, partial{})
	offs := []int64{0, 1, ln - 1, ln, ln + 1}
	offs = append(offs, bigOffsets...)
	sizes := []int64{1, ln}
	sizes = append(sizes, bigSizes...)
	seenP := map[[2]int64]bool{}
	for _, o := range offs {
		for _, s := range sizes {
			if o < 0 || s <= 0 || seenP[[2]int64{o, s}] {
				continue
			}
			seenP[[2]int64{o, s}] = true
			parts = append(parts, partial{true, o, s})
		}
	}
	secText := f.canon()
	for _, peek := range []bool{true, false} {
		// three pipelined commands per case: reset \Seen, the FETCH under test, read the flags back
		var cmds []string
		for _, p := range parts {
			item := "BODY"
			if peek {
				item = "BODY.PEEK"
			}
			item += "[" + secText + "]"
			if p.has {
				item += fmt.Sprintf("<%d.%d>", p.off, p.size)
			}
			cmds = append(cmds,
				fmt.Sprintf("STORE %d -FLAGS.SILENT (\\Seen)", seq),
				fmt.Sprintf("FETCH %d (%s)", seq, item),
				fmt.Sprintf("FETCH %d (FLAGS)", seq))
		}
		rs := bc.runBatch(cmds)
		fullOK := true
		for i, p := range parts {
			ok := checkFetch(srv, box, seq, cm, f, p, peek, alts, specified, fullOK, rs[3*i], rs[3*i+1], rs[3*i+2])
			if i == 0 {
				fullOK = ok
			}
		}
	}
}

// section mismatches are keyed at the end: a specifier that is wrong on three or more corpus
// messages is one defect of that specifier, otherwise the defect is tied to the message
type ffail struct {
	msg, sec string
	det      map[string]interface{}
}

var ffailMu sync.Mutex
var ffails []ffail

func fetchFailure(msg, sec string, det map[string]interface{}) {
	ffailMu.Lock()
	defer ffailMu.Unlock()
	if len(ffails) < 50000 {
		ffails = append(ffails, ffail{msg, sec, det})
	}
}

func flushFetchFailures() {
	ffailMu.Lock()
	defer ffailMu.Unlock()
	msgsPerSec := map[string]map[string]bool{}
	for _, f := range ffails {
		if msgsPerSec[f.sec] == nil {
			msgsPerSec[f.sec] = map[string]bool{}
		}
		msgsPerSec[f.sec][f.msg] = true
	}
	for _, f := range ffails {
		if len(msgsPerSec[f.sec]) >= 3 {
			bViolation("fetch-section-mismatch:"+f.sec, f.det)
		} else {
			bViolation(fmt.Sprintf("fetch-section-mismatch:%s:%s", f.msg, f.sec), f.det)
		}
	}
}

func checkFetch(srv *server, box string, seq int, cm *corpusMsg, f fsection, p partial, peek bool, alts []string, specified bool, fullOK bool, r0, r, r2 reply) (contentOK bool) {
	atomic.AddInt64(&bst.fetchCmds, 1)
	pk := "none"
	if p.has {
		pk = fmt.Sprintf("<%d.%d>", p.off, p.size)
	}
	det := func(extra map[string]interface{}) map[string]interface{} {
		d := map[string]interface{}{"script": bScript(box, false, r0.cmd, r.cmd, r2.cmd), "mailbox": box, "message": cm.name, "section": f.canon(), "partial": pk, "peek": peek, "reply": r.raw}
		for k, v := range extra {
			d[k] = v
		}
		return d
	}
	if r.problem != "" {
		atomic.AddInt64(&bst.crashes, 1)
		bViolation(panicKey(r.panicLog, "fetch-crash-or-framing:"+r.problem+":"+f.spec), det(map[string]interface{}{"server_log": r.panicLog}))
		return
	}
	if r0.problem != "" || r2.problem != "" || r0.status != "OK" || r2.status != "OK" {
		bViolation("fetch-helper-command-failed", det(map[string]interface{}{"store_reply": r0.raw, "flags_reply": r2.raw}))
		return
	}
	if !specified {
		// RFC 9051 §6.4.5 leaves the result open: OK with anything, or NO/BAD
		atomic.AddInt64(&bst.fetchUnspecified, 1)
		return
	}
	missing := cm.partMissing(f.path)
	if r.status != "OK" {
		if missing {
			atomic.AddInt64(&bst.fetchMissing, 1)
			return true // refusing a part that does not exist is fine
		}
		bViolation("fetch-section-refused:"+f.spec, det(nil))
		return
	}
	if missing {
		atomic.AddInt64(&bst.fetchMissing, 1)
	} else {
		atomic.AddInt64(&bst.fetchCompared, 1)
	}
	// the body item of the response
	var item *sexp
	var name string
	var seenInResp *bool
	n := 0
	for _, u := range r.untagged("FETCH") {
		fr, err := parseFetch(u)
		if err != nil {
			bViolation("fetch-response-unparsable", det(map[string]interface{}{"error": err.Error()}))
			return
		}
		if int(fr.seq) != seq {
			continue
		}
		for _, k := range fr.order {
			if strings.HasPrefix(k, "BODY[") {
				v := fr.items[k]
				item, name = &v, k
				n++
			}
			if k == "FLAGS" {
				b := false
				for _, fl := range flagSetOf(fr.items[k]) {
					if fl == "\\seen" {
						b = true
					}
				}
				seenInResp = &b
			}
		}
	}
	_ = seenInResp
	if n != 1 {
		bViolation("fetch-section-no-single-body-item:"+f.spec, det(map[string]interface{}{"body_items": n}))
		return
	}
	var got string
	switch item.kind {
	case 'l':
		got = string(item.lit)
	case 'q':
		got = item.atom
	case 'a':
		if item.atom != "NIL" {
			bViolation("fetch-response-unparsable", det(map[string]interface{}{"value": item.atom}))
			return
		}
	}
	okContent := false
	var wants []string
	for _, a := range alts {
		w := slicePartial(a, p)
		wants = append(wants, w)
		if w == got {
			okContent = true
		}
	}
	if !okContent {
		sec := f.spec
		if sec == "" {
			sec = "content"
		}
		if p.has && fullOK {
			// the whole section is right, only the slice is wrong
			bViolation("fetch-partial-slice-mismatch", det(map[string]interface{}{"got": got, "want_one_of": wants}))
		} else {
			fetchFailure(cm.name, sec, det(map[string]interface{}{"got": got, "want_one_of": wants}))
		}
		return false
	}
	contentOK = true
	if missing {
		return // section name echo and \Seen are not defined for a part that does not exist
	}
	// the response names the section (and the origin octet of a partial)
	wantName := "BODY[" + f.canon() + "]"
	if p.has && p.off < 1<<32 {
		wantName += fmt.Sprintf("<%d>", p.off)
	}
	gotName := normalizeSectionName(name)
	if p.has && p.off >= 1<<32 {
		if i := strings.IndexByte(gotName, '<'); i >= 0 {
			gotName = gotName[:i]
		}
	}
	if gotName != wantName {
		bViolation("fetch-section-name-mismatch:"+f.spec, det(map[string]interface{}{"got_name": name, "want_name": wantName}))
		return
	}
	// \Seen side effect
	hasSeen := false
	for _, u := range r2.untagged("FETCH") {
		if fr, err := parseFetch(u); err == nil && int(fr.seq) == seq {
			for _, fl := range flagSetOf(fr.items["FLAGS"]) {
				if fl == "\\seen" {
					hasSeen = true
				}
			}
		}
	}
	if peek && hasSeen {
		bViolation("fetch-peek-sets-seen", det(map[string]interface{}{"flags_reply": r2.raw}))
	}
	if !peek && !hasSeen {
		bViolation("fetch-body-does-not-set-seen", det(map[string]interface{}{"flags_reply": r2.raw}))
	}
	return
}

// normalizeSectionName upper-cases and unquotes the header list: BODY[HEADER.FIELDS ("a" "b")]<0>
func normalizeSectionName(n string) string {
	n = strings.ToUpper(n)
	n = strings.ReplaceAll(n, "\"", "")
	return n
}

// ---------- LIST patterns ----------

func listRegexp(ref, pattern string) *regexp.Regexp {
	var sb strings.Builder
	sb.WriteString(`(?s)\A`)
	sb.WriteString(regexp.QuoteMeta(ref))
	for _, r := range pattern {
		switch r {
		case '*':
			sb.WriteString(`.*`)
		case '%':
			sb.WriteString(`[^/]*`)
		default:
			sb.WriteString(regexp.QuoteMeta(string(r)))
		}
	}
	sb.WriteString(`\z`)
	return regexp.MustCompile(sb.String())
}

func partBList() {
	srv := newServer("INBOX")
	defer srv.close()
	boxes := buildStore(srv)
	var names []string
	for _, b := range boxes {
		names = append(names, b.name)
	}
	names = append(names, bExtraNames...)
	sort.Strings(names)
	sub := map[string]bool{}
	for _, n := range bSubscribed {
		sub[n] = true
	}
	patterns := []string{"*", "%", "A*", "A%", "A/*", "A/%", "A/%/%", "*/x", "%/x", "%/%", "*/*", "*x*", "%x%", "I*X", "I%X", "INBOX", "A/x", "A/x/y", "*/", "%/", "*y", "%y", "A*y", "A%y", "E%y", "*b", "**", "%%", "*%", "%*", "%/*", "*/%", "Nope", "A/", "/A", "a", "Gaps", "G*s", "?"}
	refs := []string{"", "A/", "A/x/", "B/"}
	bc := &bconn{srv: srv}
	type lq struct {
		cmd  string
		kind string // LIST | LSUB
		want []string
	}
	var qs []lq
	for _, ref := range refs {
		for _, p := range patterns {
			if strings.HasPrefix(p, "/") && ref != "" {
				continue // a pattern starting with the delimiter under a reference: interpretation is implementation-defined (RFC 9051 §6.3.9)
			}
			pat := p
			if strings.HasPrefix(p, "/") {
				// absolute pattern: imapserver documents (table test) that the leading delimiter is dropped
				continue
			}
			re := listRegexp(ref, pat)
			var all, subs []string
			for _, n := range names {
				if re.MatchString(n) {
					all = append(all, n)
					if sub[n] {
						subs = append(subs, n)
					}
				}
			}
			q := func(s string) string { return "\"" + s + "\"" }
			qs = append(qs,
				lq{"LIST " + q(ref) + " " + q(pat), "LIST", all},
				lq{"LSUB " + q(ref) + " " + q(pat), "LSUB", subs},
				lq{"LIST (SUBSCRIBED) " + q(ref) + " " + q(pat), "LIST", subs},
			)
			if ref == "" && !strings.ContainsAny(pat, " ") {
				qs = append(qs, lq{"LIST \"\" " + pat, "LIST", all}) // unquoted list-mailbox
			}
		}
	}
	// several patterns at once (LIST-EXTENDED)
	{
		re1, re2 := listRegexp("", "A%"), listRegexp("", "*y")
		var all []string
		for _, n := range names {
			if re1.MatchString(n) || re2.MatchString(n) {
				all = append(all, n)
			}
		}
		qs = append(qs, lq{`LIST "" (A% *y)`, "LIST", all})
	}
	var cmds []string
	for _, q := range qs {
		cmds = append(cmds, q.cmd)
	}
	rs := bc.runBatch(cmds)
	for i, r := range rs {
		atomic.AddInt64(&bst.listCmds, 1)
		q := qs[i]
		det := map[string]interface{}{"script": bScript("", false, q.cmd), "reply": r.raw, "want": q.want}
		if r.problem != "" {
			bViolation(panicKey(r.panicLog, "list-crash-or-framing:"+r.problem), det)
			continue
		}
		if r.status != "OK" {
			bViolation("list-refused", det)
			continue
		}
		var got []string
		for _, u := range r.untagged(q.kind) {
			n, ok := listName(u)
			if !ok {
				bViolation("list-response-unparsable", det)
				continue
			}
			got = append(got, n)
		}
		sort.Strings(got)
		if strings.Join(got, "\x00") != strings.Join(q.want, "\x00") {
			det["got"] = got
			kind := "literal"
			if strings.Contains(q.cmd, "%") {
				kind = "percent"
			} else if strings.Contains(q.cmd, "*") {
				kind = "star"
			}
			bViolation("list-pattern-mismatch:"+strings.Fields(q.cmd)[0]+":"+kind, det)
		}
	}
	if bc.c != nil {
		bc.c.hangup()
	}
	run.Set("B_list_patterns", int64(len(patterns)))
	run.Set("B_list_references", int64(len(refs)))
}

// ---------- commands that must simply not crash the connection ----------

func partBMisc() {
	srv := newServer("INBOX")
	defer srv.close()
	buildStore(srv)
	var cmds []string
	for seq := 1; seq <= 6; seq++ {
		for _, it := range []string{"BODYSTRUCTURE", "BODY", "ENVELOPE", "ALL", "FULL", "FAST", "(FLAGS INTERNALDATE RFC822.SIZE ENVELOPE BODYSTRUCTURE UID)", "RFC822", "RFC822.HEADER", "RFC822.TEXT", "(BODY.PEEK[] BODY.PEEK[HEADER] BODY.PEEK[TEXT] BODY.PEEK[1]<0.10>)"} {
			cmds = append(cmds, fmt.Sprintf("FETCH %d %s", seq, it))
			cmds = append(cmds, fmt.Sprintf("UID FETCH %d %s", seq, it))
		}
	}
	for _, set := range []string{"1:*", "*", "6:*", "7:*", "4294967295", "1,3,5", "*:1"} {
		cmds = append(cmds, "FETCH "+set+" (UID FLAGS)", "UID FETCH "+set+" (FLAGS)", "FETCH "+set+" (RFC822.SIZE BODY.PEEK[HEADER.FIELDS (DATE)])")
	}
	bc := &bconn{srv: srv, box: "INBOX"}
	rs := bc.runBatch(cmds)
	chk := func(rs []reply, box string) {
		for _, r := range rs {
			atomic.AddInt64(&bst.miscCmds, 1)
			if r.problem != "" {
				atomic.AddInt64(&bst.crashes, 1)
				bViolation(panicKey(r.panicLog, "crash-or-framing:"+strings.Fields(r.cmd)[0]+":"+r.problem),
					map[string]interface{}{"script": bScript(box, false, r.cmd), "reply": r.raw, "server_log": r.panicLog})
			}
		}
	}
	chk(rs, "INBOX")
	bc.c.hangup()
	// STATUS with every item the server parses, on every mailbox
	var scmds []string
	for _, n := range []string{"INBOX", "Gaps", "Empty", "A/x", "Nope"} {
		for _, it := range []string{"MESSAGES", "UIDNEXT", "UIDVALIDITY", "UNSEEN", "DELETED", "SIZE", "RECENT", "APPENDLIMIT", "DELETED-STORAGE", "MESSAGES UIDNEXT UIDVALIDITY UNSEEN DELETED SIZE RECENT APPENDLIMIT"} {
			scmds = append(scmds, fmt.Sprintf("STATUS %s (%s)", n, it))
		}
	}
	bc2 := &bconn{srv: srv}
	chk(bc2.runBatch(scmds), "")
	if bc2.c != nil {
		bc2.c.hangup()
	}
}

// verifyStore checks that the set-up produced the store the part-B expectations are written
// for; if the backend cannot even do that, one violation says so and part B stops.
func verifyStore() bool {
	srv := newServer("INBOX")
	defer srv.close()
	boxes := buildStore(srv)
	c := srv.dial("v")
	defer c.hangup()
	for _, b := range boxes {
		r1 := c.do("EXAMINE " + b.name)
		r := c.do("UID FETCH 1:* (FLAGS RFC822.SIZE)")
		var got, want []string
		for _, u := range r.untagged("FETCH") {
			if fr, err := parseFetch(u); err == nil {
				got = append(got, fmt.Sprintf("%d:uid%s:%s:(%s)", fr.seq, fr.items["UID"].atom, fr.items["RFC822.SIZE"].atom, strings.Join(flagSetOf(fr.items["FLAGS"]), " ")))
			}
		}
		for _, m := range b.msgs {
			want = append(want, fmt.Sprintf("%d:uid%d:%d:(%s)", m.Seq, m.UID, m.Size, canonFlags(m.Flags)))
		}
		if r1.status != "OK" || r.status != "OK" || strings.Join(got, ";") != strings.Join(want, ";") {
			bViolation("part-B-store-set-up-differs-from-the-model", map[string]interface{}{"script": bScript(b.name, false, "UID FETCH 1:* (FLAGS RFC822.SIZE)"),
				"mailbox": b.name, "got": got, "want": want, "reply": r.raw, "note": "APPEND / STORE / UID EXPUNGE of the set-up did not produce the planned mailbox; the query spaces were not run"})
			return false
		}
	}
	return true
}

var bSkipped bool

func partB() {
	t0 := time.Now()
	thorough := run.Thorough()
	if !verifyStore() {
		flushBViolations()
		run.Set("B_skipped_because_store_set_up_failed", true)
		bSkipped = true
		return
	}
	partBSearch(thorough)
	t1 := time.Now()
	partBFetch(thorough)
	t2 := time.Now()
	partBList()
	partBMisc()
	partBSearchRes()
	flushFetchFailures()
	flushBViolations()
	fmt.Printf("  [B] search %d commands (%.1fs), fetch %d commands (%d compared with the section table, %d on parts that do not exist, %d on unspecified sections) (%.1fs), list %d, misc %d; %d commands ended with a dead connection\n",
		bst.searchCmds, t1.Sub(t0).Seconds(), bst.fetchCmds, bst.fetchCompared, bst.fetchMissing, bst.fetchUnspecified, t2.Sub(t1).Seconds(), bst.listCmds, bst.miscCmds, bst.crashes)
	_ = vk.Q
}
