package main

import (
	"crypto/sha256"
	"fmt"
	"sort"
	"strconv"
	"strings"
)

// ---------- the reference mailbox model (plain Go, written from RFC 9051 / RFC 3501) ----------
//
// Names are opaque keys (flat namespace). A mailbox is an object: a session that has it selected
// keeps operating on the object when the name is deleted or renamed.
// Values a server is free to choose (UIDVALIDITY, the UIDs of new messages, UIDNEXT) are not
// predicted: they are *adopted* from the observation after the constraints of the statement
// have been checked (new UID > every UID ever assigned in that mailbox; UIDNEXT > every UID and
// never decreasing; UIDVALIDITY constant for an object and different from every earlier
// incarnation of the same name).

type mMsg struct {
	uid   uint32 // 0 = not adopted yet
	c     int    // corpus index
	flags string // sorted, lower-cased, space separated
	date  int    // index into appendDates
	from  uint32 // source UID for a copy (0 for APPEND); used to pair COPYUID
}

type mBox struct {
	id      int
	uv      uint32 // 0 = not adopted yet
	uidNext uint32 // last observed UIDNEXT (0 = none yet)
	maxUID  uint32 // highest UID ever assigned
	msgs    []mMsg
}

type pendEv struct {
	kind byte // 'A' a message the session has not been told about, 'X' an expunge it has not been told about, 'F' a flag change by another session
	uid  uint32
}

type mSess struct {
	box      *mBox
	readOnly bool
	view     []uint32 // UIDs in the order the session numbers them
	pend     []pendEv
	dirty    []uint32 // UIDs (sorted, unique) whose flags another session changed and whose unsolicited FETCH FLAGS may still be queued
	flagUpd  []uint32 // transient: UIDs whose unsolicited FLAGS update may have been delivered by the last command
}

const (
	subNo = iota
	subYes
	subUnknown // RFC 3501 §6.3.6 keeps a subscription when the mailbox goes away; the statement is silent: unconstrained
)

type model struct {
	names  map[string]*mBox
	sub    map[string]int
	pastUV map[string][]pastInc
	sess   [2]mSess
	nextID int
}

// pastInc is an earlier incarnation of a name: the mailbox object and its UIDVALIDITY.
type pastInc struct {
	uv uint32
	id int
}

type quirks struct {
	starServerCount bool // '*' in a sequence set = number of messages on the server, matched against client numbers
	uidStarUIDNext  bool // '*' in a UID set = UIDNEXT-1
	readOnlyIgnored bool // EXAMINE behaves like SELECT
	uidExpungeStar  bool // UID EXPUNGE does not resolve '*': a bare '*' matches nothing, 'n:*' matches every UID >= n
}

func newModel(pre []string) *model {
	m := &model{names: map[string]*mBox{}, sub: map[string]int{}, pastUV: map[string][]pastInc{}}
	for _, n := range pre {
		m.names[n] = &mBox{id: m.nextID}
		m.nextID++
	}
	return m
}

func (m *model) clone() *model {
	c := &model{names: map[string]*mBox{}, sub: map[string]int{}, pastUV: map[string][]pastInc{}, nextID: m.nextID}
	boxes := map[*mBox]*mBox{}
	cp := func(b *mBox) *mBox {
		if b == nil {
			return nil
		}
		if x, ok := boxes[b]; ok {
			return x
		}
		x := &mBox{id: b.id, uv: b.uv, uidNext: b.uidNext, maxUID: b.maxUID, msgs: append([]mMsg(nil), b.msgs...)}
		boxes[b] = x
		return x
	}
	for n, b := range m.names {
		c.names[n] = cp(b)
	}
	for n, v := range m.sub {
		c.sub[n] = v
	}
	for n, v := range m.pastUV {
		c.pastUV[n] = append([]pastInc(nil), v...)
	}
	for i := range m.sess {
		s := m.sess[i]
		c.sess[i] = mSess{box: cp(s.box), readOnly: s.readOnly, view: append([]uint32(nil), s.view...), pend: append([]pendEv(nil), s.pend...), dirty: append([]uint32(nil), s.dirty...)}
	}
	return c
}

func (m *model) forEachBox(f func(b *mBox)) {
	seen := map[*mBox]bool{}
	for _, b := range m.names {
		if !seen[b] {
			seen[b] = true
			f(b)
		}
	}
	for i := range m.sess {
		if b := m.sess[i].box; b != nil && !seen[b] {
			seen[b] = true
			f(b)
		}
	}
}

func (m *model) sortedNames() []string {
	var l []string
	for n := range m.names {
		l = append(l, n)
	}
	sort.Strings(l)
	return l
}

// key is the canonical form used for deduplication: mailbox identities and UIDVALIDITY values are
// renamed in order of first appearance, so that only their equal/different pattern matters.
func (m *model) key() [16]byte {
	var sb strings.Builder
	ids := map[int]int{}
	uvs := map[uint32]int{}
	id := func(b *mBox) int {
		if b == nil {
			return -1
		}
		if v, ok := ids[b.id]; ok {
			return v
		}
		ids[b.id] = len(ids)
		return ids[b.id]
	}
	uv := func(v uint32) int {
		if x, ok := uvs[v]; ok {
			return x
		}
		uvs[v] = len(uvs)
		return uvs[v]
	}
	box := func(b *mBox) {
		fmt.Fprintf(&sb, "#%d v%d n%d x%d[", id(b), uv(b.uv), b.uidNext, b.maxUID)
		for _, g := range b.msgs {
			fmt.Fprintf(&sb, "%d/%d/%s/%d;", g.uid, g.c, g.flags, g.date)
		}
		sb.WriteString("]")
	}
	allNames := map[string]bool{}
	for n := range m.names {
		allNames[n] = true
	}
	for n := range m.sub {
		allNames[n] = true
	}
	for n := range m.pastUV {
		allNames[n] = true
	}
	var l []string
	for n := range allNames {
		l = append(l, n)
	}
	sort.Strings(l)
	for _, n := range l {
		fmt.Fprintf(&sb, "%s:s%d p(", n, m.sub[n])
		for _, v := range m.pastUV[n] {
			fmt.Fprintf(&sb, "%d/%d,", uv(v.uv), v.id)
		}
		sb.WriteString(")")
		if b := m.names[n]; b != nil {
			box(b)
		}
		sb.WriteString("|")
	}
	for i := range m.sess {
		s := &m.sess[i]
		fmt.Fprintf(&sb, "S%d:", i)
		if s.box != nil {
			_, known := ids[s.box.id]
			// dirty (possibly queued unsolicited flag updates) is deliberately not part of the key: it only
			// widens what a leaf FETCH tolerates, and every execution replays the representative
			// history its model was derived from
			fmt.Fprintf(&sb, "b%d r%v v%v p%v", id(s.box), s.readOnly, s.view, s.pend)
			if !known { // orphan: its content is part of the state
				box(s.box)
			}
		}
		sb.WriteString("|")
	}
	h := sha256.Sum256([]byte(sb.String()))
	var k [16]byte
	copy(k[:], h[:16])
	return k
}

// ---------- commands ----------

type cmd struct {
	S      int    // session
	Op     string // CREATE DELETE RENAME SUBSCRIBE UNSUBSCRIBE APPEND SELECT EXAMINE CLOSE UNSELECT STORE COPY MOVE EXPUNGE UIDEXPUNGE FETCH SEARCH NOOP
	Name   string
	Name2  string
	UID    bool
	Set    string
	Store  string   // "+", "-", ""
	Flags  []string // wire form (any case)
	Silent bool
	C      int    // corpus index (APPEND)
	Date   int    // index into appendDates
	Key    string // SEARCH key
	Leaf   bool   // leaf-only: executed and checked at every state but never extended
}

var appendDates = []string{"10-Mar-2024 13:00:00 +0000", " 9-Mar-2024 23:30:00 -0500", "11-Mar-2024 00:30:00 +0900"}

func (c cmd) wire() string {
	u := ""
	if c.UID {
		u = "UID "
	}
	switch c.Op {
	case "CREATE", "DELETE", "SUBSCRIBE", "UNSUBSCRIBE", "SELECT", "EXAMINE":
		return c.Op + " " + c.Name
	case "RENAME":
		return "RENAME " + c.Name + " " + c.Name2
	case "APPEND":
		fl := ""
		if c.Flags != nil {
			fl = "(" + strings.Join(c.Flags, " ") + ") "
		}
		return fmt.Sprintf("APPEND %s %s\"%s\" %%M%d%%", c.Name, fl, appendDates[c.Date], c.C)
	case "CLOSE", "UNSELECT", "EXPUNGE", "NOOP":
		return c.Op
	case "UIDEXPUNGE":
		return "UID EXPUNGE " + c.Set
	case "STORE":
		item := c.Store + "FLAGS"
		if c.Silent {
			item += ".SILENT"
		}
		return fmt.Sprintf("%sSTORE %s %s (%s)", u, c.Set, item, strings.Join(c.Flags, " "))
	case "COPY", "MOVE":
		return fmt.Sprintf("%s%s %s %s", u, c.Op, c.Set, c.Name)
	case "FETCH":
		return fmt.Sprintf("%sFETCH %s (UID FLAGS)", u, c.Set)
	case "SEARCH":
		return u + "SEARCH " + c.Key
	}
	panic("unknown op " + c.Op)
}

func canonFlags(fl []string) string {
	set := map[string]bool{}
	for _, f := range fl {
		set[strings.ToLower(f)] = true
	}
	var l []string
	for f := range set {
		l = append(l, f)
	}
	sort.Strings(l)
	return strings.Join(l, " ")
}

func hasFlagStr(flags, f string) bool {
	for _, x := range strings.Fields(flags) {
		if x == f {
			return true
		}
	}
	return false
}

// expectation of one command
type expect struct {
	status    string      // "ok" | "fail" | "any"
	failKeeps bool        // (status any) a failure must leave the state untouched, an OK applies `alt`
	code      string      // "" | APPENDUID | COPYUID
	codeBox   *mBox       // mailbox the code talks about
	srcUIDs   []uint32    // COPYUID: source UIDs (ascending)
	noMatch   bool        // COPY/MOVE whose set addresses no message
	fetch     []fetchLine // expected untagged FETCH data (leaf FETCH)
	search    []uint32    // expected SEARCH numbers (leaf SEARCH)
	hasSearch bool
	skipped   string // non-empty: the command is outside the alphabet in this state (reason)
}

type fetchLine struct {
	seq, uid uint32
	flags    string
}

func (b *mBox) find(uid uint32) int {
	for i := range b.msgs {
		if b.msgs[i].uid == uid {
			return i
		}
	}
	return -1
}

// rng is one element of a sequence set; 0 stands for '*'.
type rng struct{ a, b uint32 }

func parseModelSet(s string) []rng {
	var out []rng
	for _, part := range strings.Split(s, ",") {
		x, y, isRange := strings.Cut(part, ":")
		num := func(t string) uint32 {
			if t == "*" {
				return 0
			}
			n, err := strconv.ParseUint(t, 10, 32)
			if err != nil {
				panic("bad set " + s)
			}
			return uint32(n)
		}
		r := rng{num(x), num(x)}
		if isRange {
			r.b = num(y)
		}
		out = append(out, r)
	}
	return out
}

// rawContains: membership when '*' is left unresolved (imapnum semantics: '*' contains only '*',
// 'n:*' contains every number >= n).
func rawContains(set []rng, n uint32) bool {
	for _, r := range set {
		if r.a != 0 && r.a <= n && (n <= r.b || r.b == 0) {
			return true
		}
	}
	return false
}

func setHasStar(s string) bool { return strings.Contains(s, "*") }

func containsNum(set []rng, star uint32, n uint32) bool {
	for _, r := range set {
		a, b := r.a, r.b
		if a == 0 {
			a = star
		}
		if b == 0 {
			b = star
		}
		if a > b {
			a, b = b, a
		}
		if n >= a && n <= b {
			return true
		}
	}
	return false
}

// addressed returns the indices (into box.msgs) of the messages a command of session s addresses.
func (m *model) addressed(s *mSess, uid bool, setText string, q quirks) []int {
	b := s.box
	set := parseModelSet(setText)
	var out []int
	if uid {
		var star uint32
		if q.uidStarUIDNext {
			star = b.maxUID // UIDNEXT-1
		} else if len(b.msgs) > 0 {
			star = b.msgs[len(b.msgs)-1].uid
		}
		for i, g := range b.msgs {
			if star == 0 && setHasStar(setText) {
				// empty mailbox: '*' addresses nothing
				continue
			}
			if containsNum(set, star, g.uid) {
				out = append(out, i)
			}
		}
		return out
	}
	star := uint32(len(s.view))
	if q.starServerCount {
		star = uint32(len(b.msgs))
	}
	if star == 0 && setHasStar(setText) {
		return nil
	}
	for i, g := range b.msgs {
		cseq := uint32(0)
		for k, u := range s.view {
			if u == g.uid {
				cseq = uint32(k + 1)
			}
		}
		if cseq != 0 && containsNum(set, star, cseq) {
			out = append(out, i)
		}
	}
	return out
}

const tempUID = 0xF0000000 // placeholder UIDs of messages whose UID has not been adopted yet

// addMsg appends a new message with a placeholder UID and queues its announcement.
func (m *model) addMsg(b *mBox, g mMsg) {
	n := uint32(0)
	for _, x := range b.msgs {
		if x.uid >= tempUID {
			n++
		}
	}
	g.uid = tempUID + n
	b.msgs = append(b.msgs, g)
	m.notify(b, pendEv{'A', g.uid})
}

// renameUID replaces a placeholder by the adopted UID everywhere.
func (m *model) renameUID(b *mBox, from, to uint32) {
	for i := range b.msgs {
		if b.msgs[i].uid == from {
			b.msgs[i].uid = to
		}
	}
	for i := range m.sess {
		s := &m.sess[i]
		if s.box != b {
			continue
		}
		for k := range s.view {
			if s.view[k] == from {
				s.view[k] = to
			}
		}
		for k := range s.pend {
			if s.pend[k].uid == from {
				s.pend[k].uid = to
			}
		}
	}
}

// queue an event to every session that has box selected
func (m *model) notify(b *mBox, ev pendEv) {
	for i := range m.sess {
		if m.sess[i].box == b {
			m.sess[i].pend = append(m.sess[i].pend, ev)
		}
	}
}

// sync delivers pending events to session s the way imapserver polls: after a successful
// command; expunges (and everything queued behind the first one) are withheld after
// FETCH/STORE/SEARCH (RFC 9051 §7.5.1 forbids EXPUNGE responses there).
func (s *mSess) sync(allowExpunge bool) {
	n := 0
	for _, ev := range s.pend {
		if ev.kind == 'X' && !allowExpunge {
			break
		}
		n++
		switch ev.kind {
		case 'A':
			s.view = append(s.view, ev.uid)
		case 'X':
			for k, u := range s.view {
				if u == ev.uid {
					s.view = append(s.view[:k:k], s.view[k+1:]...)
					break
				}
			}
		}
	}
	s.pend = append([]pendEv(nil), s.pend[n:]...)
	// unsolicited flag updates travel in the same queue: all of them may have been delivered now;
	// some may remain queued behind a withheld expunge
	s.flagUpd = append([]uint32(nil), s.dirty...)
	if len(s.pend) == 0 {
		s.dirty = nil
	}
}

func (s *mSess) markDirty(uid uint32) {
	for _, u := range s.dirty {
		if u == uid {
			return
		}
	}
	s.dirty = append(s.dirty, uid)
	sort.Slice(s.dirty, func(i, j int) bool { return s.dirty[i] < s.dirty[j] })
}

func (m *model) removeMsgs(b *mBox, idx []int) {
	drop := map[int]bool{}
	for _, i := range idx {
		drop[i] = true
	}
	var keep []mMsg
	// the tracker queues expunges from the highest sequence number down; the order does not
	// matter for a model that works on UIDs
	for i := len(b.msgs) - 1; i >= 0; i-- {
		if drop[i] {
			m.notify(b, pendEv{'X', b.msgs[i].uid})
		}
	}
	for i, g := range b.msgs {
		if !drop[i] {
			keep = append(keep, g)
		}
	}
	b.msgs = keep
}

// apply executes c on the model and returns what must be observed. New messages get uid 0 and
// are adopted from the observation later (adoptBox).
// ok is the status the server actually returned; the model only looks at it where the RFC lets
// a server choose (expect.status == "any").
func (m *model) apply(c cmd, q quirks, ok bool) expect {
	s := &m.sess[c.S]
	e := expect{status: "ok"}
	m.forEachBox(func(b *mBox) {
		for i := range b.msgs {
			b.msgs[i].from = 0
		}
	})
	for i := range m.sess {
		m.sess[i].flagUpd = nil
	}
	needSelected := func() bool {
		if s.box == nil {
			e.status = "fail"
			return false
		}
		return true
	}
	switch c.Op {
	case "NOOP":
		s.sync(true)
	case "CREATE":
		if m.names[c.Name] != nil {
			e.status = "fail"
			return e
		}
		m.names[c.Name] = &mBox{id: m.nextID}
		m.nextID++
	case "DELETE":
		b := m.names[c.Name]
		if b == nil {
			e.status = "fail"
			return e
		}
		m.pastUV[c.Name] = append(m.pastUV[c.Name], pastInc{b.uv, b.id})
		delete(m.names, c.Name)
		if m.sub[c.Name] == subYes {
			m.sub[c.Name] = subUnknown
		}
	case "RENAME":
		b := m.names[c.Name]
		if b == nil || m.names[c.Name2] != nil {
			e.status = "fail"
			return e
		}
		m.pastUV[c.Name] = append(m.pastUV[c.Name], pastInc{b.uv, b.id})
		delete(m.names, c.Name)
		m.names[c.Name2] = b
		if m.sub[c.Name] != subNo || m.sub[c.Name2] != subNo {
			m.sub[c.Name], m.sub[c.Name2] = subUnknown, subUnknown
		}
	case "SUBSCRIBE":
		if m.names[c.Name] == nil {
			// RFC 3501 §6.3.6: a server MAY validate the name; the model requires nothing here
			e.status = "any"
			if !ok {
				return e
			}
		}
		m.sub[c.Name] = subYes
	case "UNSUBSCRIBE":
		if m.sub[c.Name] != subYes {
			// unsubscribing a name that is not subscribed: OK and NO are both legitimate
			e.status = "any"
			m.sub[c.Name] = subNo
			if !ok {
				return e
			}
		}
		m.sub[c.Name] = subNo
	case "APPEND":
		b := m.names[c.Name]
		if b == nil {
			e.status = "fail"
			return e
		}
		m.addMsg(b, mMsg{c: c.C, flags: canonFlags(c.Flags), date: c.Date})
		e.code, e.codeBox = "APPENDUID", b
	case "SELECT", "EXAMINE":
		// a failed SELECT leaves the session with no mailbox selected (RFC 9051 §6.3.2)
		if s.box != nil {
			*s = mSess{}
		}
		b := m.names[c.Name]
		if b == nil {
			e.status = "fail"
			return e
		}
		s.box = b
		s.readOnly = c.Op == "EXAMINE"
		for _, g := range b.msgs {
			s.view = append(s.view, g.uid)
		}
		return e
	case "CLOSE", "UNSELECT":
		if !needSelected() {
			return e
		}
		if c.Op == "CLOSE" && !(s.readOnly && !q.readOnlyIgnored) {
			var idx []int
			for i, g := range s.box.msgs {
				if hasFlagStr(g.flags, "\\deleted") {
					idx = append(idx, i)
				}
			}
			b := s.box
			*s = mSess{}
			m.removeMsgs(b, idx)
			return e
		}
		*s = mSess{}
		return e
	case "STORE":
		if !needSelected() {
			return e
		}
		if s.readOnly && !q.readOnlyIgnored {
			// RFC 9051 §6.3.3: no change to the permanent state is permitted through EXAMINE;
			// whether the server says NO or OK-and-does-nothing is its choice
			e.status = "any"
			if ok {
				if !c.UID {
					s.sync(false)
					return e
				}
				break
			}
			return e
		}
		for _, i := range m.addressed(s, c.UID, c.Set, q) {
			g := &s.box.msgs[i]
			// the other sessions of this mailbox get an unsolicited FETCH FLAGS (C08's subject; the
			// model only needs to know that one may arrive)
			for k := range m.sess {
				if k != c.S && m.sess[k].box == s.box {
					m.sess[k].markDirty(g.uid)
				}
			}
			cur := strings.Fields(g.flags)
			switch c.Store {
			case "":
				g.flags = canonFlags(c.Flags)
			case "+":
				g.flags = canonFlags(append(cur, c.Flags...))
			case "-":
				var keep []string
				for _, f := range cur {
					del := false
					for _, d := range c.Flags {
						if strings.EqualFold(d, f) {
							del = true
						}
					}
					if !del {
						keep = append(keep, f)
					}
				}
				g.flags = canonFlags(keep)
			}
		}
		if !c.UID {
			s.sync(false)
			return e
		}
	case "COPY", "MOVE":
		if !needSelected() {
			return e
		}
		dst := m.names[c.Name]
		if dst == nil {
			e.status = "fail"
			return e
		}
		if dst == s.box {
			// copying a mailbox onto itself is legal IMAP, refusing it is legal too: a refusal
			// must change nothing, an OK must do the copy
			e.status = "any"
			if !ok {
				return e
			}
		}
		idx := m.addressed(s, c.UID, c.Set, q)
		if len(idx) == 0 {
			e.noMatch = true
			e.status = "any" // RFC 9051 §6.4.7: OK without COPYUID, or NO; nothing changes either way
			if !ok {
				return e
			}
			break
		}
		if c.Op == "MOVE" && s.readOnly && !q.readOnlyIgnored {
			// a MOVE cannot remove anything from a read-only mailbox: the model expects a refusal
			e.status = "fail"
			return e
		}
		src := s.box
		for _, i := range idx {
			g := src.msgs[i]
			m.addMsg(dst, mMsg{c: g.c, flags: g.flags, date: g.date, from: g.uid})
			e.srcUIDs = append(e.srcUIDs, g.uid)
		}
		e.code, e.codeBox = "COPYUID", dst
		if c.Op == "MOVE" {
			m.removeMsgs(s.box, idx)
		}
	case "EXPUNGE", "UIDEXPUNGE":
		if !needSelected() {
			return e
		}
		if s.readOnly && !q.readOnlyIgnored {
			e.status = "any"
			if ok {
				break
			}
			return e
		}
		var idx []int
		if c.Op == "EXPUNGE" {
			for i, g := range s.box.msgs {
				if hasFlagStr(g.flags, "\\deleted") {
					idx = append(idx, i)
				}
			}
		} else {
			for _, i := range m.addressed(s, true, c.Set, q) {
				if q.uidExpungeStar && setHasStar(c.Set) && !rawContains(parseModelSet(c.Set), s.box.msgs[i].uid) {
					continue
				}
				if hasFlagStr(s.box.msgs[i].flags, "\\deleted") {
					idx = append(idx, i)
				}
			}
			if q.uidExpungeStar && setHasStar(c.Set) {
				idx = nil
				for i, g := range s.box.msgs {
					if rawContains(parseModelSet(c.Set), g.uid) && hasFlagStr(g.flags, "\\deleted") {
						idx = append(idx, i)
					}
				}
			}
		}
		m.removeMsgs(s.box, idx)
	case "FETCH":
		if !needSelected() {
			return e
		}
		for _, i := range m.addressed(s, c.UID, c.Set, q) {
			g := s.box.msgs[i]
			cseq := uint32(0)
			for k, u := range s.view {
				if u == g.uid {
					cseq = uint32(k + 1)
				}
			}
			e.fetch = append(e.fetch, fetchLine{cseq, g.uid, g.flags})
		}
		if !c.UID {
			s.sync(false)
			return e
		}
	case "SEARCH":
		if !needSelected() {
			return e
		}
		e.hasSearch = true
		for _, g := range s.box.msgs {
			cseq := uint32(0)
			for k, u := range s.view {
				if u == g.uid {
					cseq = uint32(k + 1)
				}
			}
			match := c.Key == "ALL" || (c.Key == "DELETED" && hasFlagStr(g.flags, "\\deleted")) || (c.Key == "UNSEEN" && !hasFlagStr(g.flags, "\\seen"))
			if !match {
				continue
			}
			if c.UID {
				e.search = append(e.search, g.uid)
			} else if cseq != 0 {
				e.search = append(e.search, cseq)
			}
		}
		if !c.UID {
			s.sync(false)
			return e
		}
	default:
		panic("model: unknown op " + c.Op)
	}
	// a successful command polls with expunges allowed
	if s.box != nil {
		s.sync(true)
	}
	return e
}

// usesUnannounced reports whether a UID set with '*' is ambiguous for the session (the last
// message of the mailbox has not been announced to it yet).
func (m *model) starAmbiguous(c cmd) bool {
	s := &m.sess[c.S]
	if s.box == nil || !c.UID || !setHasStar(c.Set) {
		return false
	}
	for _, ev := range s.pend {
		if ev.kind == 'A' {
			return true
		}
	}
	return false
}
