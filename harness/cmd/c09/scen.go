package main

// Scenarios of part A: each is (backend set-up, seed prefix, alphabet, depth). Every explored
// history is seed + ≤ depth commands, issued one at a time by two sessions on a fresh server.

var allNames = []string{"INBOX", "A", "B", "A/x"}

// diagonal APPEND variants (corpus message × flag list × internal date); the full product is
// issued as leaf-only commands.
var partACorpus = []int{4, 0, 5} // header-only (85 B), plain (274 B), truncated multipart (192 B): distinct sizes

type appendVariant struct {
	c     int
	flags []string
	date  int
}

var appendDiag = []appendVariant{
	{4, nil, 0},
	{0, []string{"\\Seen"}, 1},
	{5, []string{"\\DELETED", "Kw"}, 2},
}

var appendFlagSets = [][]string{nil, {"\\Seen"}, {"\\DELETED", "Kw"}, {"\\deleted"}, {"\\Flagged", "\\seen", "kw"}}

func selectedOps(m *model, s int, rich bool) []cmd {
	ss := &m.sess[s]
	if ss.box == nil {
		// every selected-state command is refused by the connection state machine (C05's subject):
		// one representative per command family is enough here
		return []cmd{{S: s, Op: "EXPUNGE", Leaf: true}, {S: s, Op: "STORE", Set: "1", Store: "+", Flags: []string{"\\Deleted"}, Leaf: true}, {S: s, Op: "CLOSE", Leaf: true}}
	}
	var out []cmd
	st := func(uid bool, set, op string, leaf bool, flags ...string) {
		out = append(out, cmd{S: s, Op: "STORE", UID: uid, Set: set, Store: op, Flags: flags, Leaf: leaf})
	}
	// STORE: set/add/remove × flag case variants × addressed sets
	st(false, "1", "+", false, "\\Deleted")
	st(false, "2", "+", false, "\\DELETED")
	st(false, "*", "+", false, "\\deleted")
	st(false, "1:*", "+", false, "\\Seen")
	st(false, "1", "-", false, "\\SEEN")
	st(false, "1:2", "-", false, "\\deleted")
	st(false, "2", "", false, "\\seen", "Kw")
	st(false, "1", "+", false, "kW")
	st(false, "1:2", "-", false, "KW")
	st(true, "2", "+", false, "\\Deleted")
	st(true, "1:2", "-", false, "\\DELETED", "\\seen")
	if rich {
		st(false, "2:*", "", true, "\\Flagged")
		st(false, "1", "", true)
		st(true, "*", "+", true, "\\Answered")
		st(true, "2:*", "+", true, "\\Draft")
		st(true, "1,3", "", true, "\\SEEN", "\\Seen")
		st(false, "3", "+", true, "\\Deleted")
		st(false, "2,1", "-", true, "\\seen", "nope")
		out = append(out, cmd{S: s, Op: "STORE", Set: "1", Store: "+", Flags: []string{"\\Deleted"}, Silent: true, Leaf: true})
	}
	for _, dst := range []string{"A", "B", "INBOX"} {
		out = append(out,
			cmd{S: s, Op: "COPY", Set: "1", Name: dst},
			cmd{S: s, Op: "COPY", Set: "1:*", Name: dst, Leaf: dst != "A"},
			cmd{S: s, Op: "MOVE", Set: "2", Name: dst},
			cmd{S: s, Op: "MOVE", Set: "1:2", Name: dst, Leaf: dst != "A"},
		)
		if rich {
			out = append(out,
				cmd{S: s, Op: "COPY", UID: true, Set: "2:3", Name: dst, Leaf: true},
				cmd{S: s, Op: "COPY", Set: "5", Name: dst, Leaf: true},
				cmd{S: s, Op: "MOVE", UID: true, Set: "1,3", Name: dst, Leaf: true},
				cmd{S: s, Op: "MOVE", Set: "*", Name: dst, Leaf: true},
				cmd{S: s, Op: "MOVE", UID: true, Set: "9", Name: dst, Leaf: true},
			)
		}
	}
	out = append(out,
		cmd{S: s, Op: "EXPUNGE"},
		cmd{S: s, Op: "UIDEXPUNGE", Set: "1"},
		cmd{S: s, Op: "UIDEXPUNGE", Set: "2:3"},
		cmd{S: s, Op: "CLOSE"},
		cmd{S: s, Op: "UNSELECT", Leaf: true},
		cmd{S: s, Op: "NOOP"},
		cmd{S: s, Op: "FETCH", Set: "1:3", Leaf: true},
		cmd{S: s, Op: "FETCH", Set: "1:*", Leaf: true},
		cmd{S: s, Op: "FETCH", UID: true, Set: "1:*", Leaf: true},
		cmd{S: s, Op: "FETCH", UID: true, Set: "*", Leaf: true},
		cmd{S: s, Op: "SEARCH", Key: "ALL", Leaf: true},
		cmd{S: s, Op: "SEARCH", Key: "DELETED", Leaf: true},
		cmd{S: s, Op: "SEARCH", UID: true, Key: "UNSEEN", Leaf: true},
	)
	if rich {
		out = append(out, cmd{S: s, Op: "UIDEXPUNGE", Set: "1:*", Leaf: true}, cmd{S: s, Op: "UIDEXPUNGE", Set: "*", Leaf: true})
	}
	return out
}

func filterAmbiguous(m *model, in []cmd) []cmd {
	var out []cmd
	for _, c := range in {
		if m.starAmbiguous(c) {
			continue
		}
		out = append(out, c)
	}
	return out
}

// hasInferior: the flat model does not define what RENAME/DELETE of a name with inferiors does
func hasInferior(m *model, n string) bool {
	for x := range m.names {
		if len(x) > len(n) && x[:len(n)+1] == n+"/" {
			return true
		}
	}
	return false
}

// namespace-heavy alphabet
func alphabetNamespace(rich bool) func(m *model) []cmd {
	return func(m *model) []cmd {
		var out []cmd
		issuers := []int{0}
		if rich {
			issuers = []int{0, 1}
		}
		for _, s := range issuers {
			leaf := s == 1 // the second issuer only checks, the first one extends
			for _, n := range allNames {
				out = append(out, cmd{S: s, Op: "CREATE", Name: n, Leaf: leaf})
				if n != "INBOX" && !hasInferior(m, n) {
					out = append(out, cmd{S: s, Op: "DELETE", Name: n, Leaf: leaf})
				}
				out = append(out, cmd{S: s, Op: "SUBSCRIBE", Name: n, Leaf: leaf || n == "B"}, cmd{S: s, Op: "UNSUBSCRIBE", Name: n, Leaf: leaf || n == "B"})
			}
			for _, p := range [][2]string{{"A", "B"}, {"B", "A"}, {"A/x", "B"}, {"B", "A/x"}, {"A/x", "A"}, {"A", "INBOX"}, {"B", "INBOX"}} {
				if hasInferior(m, p[0]) {
					continue
				}
				out = append(out, cmd{S: s, Op: "RENAME", Name: p[0], Name2: p[1], Leaf: leaf})
			}
		}
		for i, n := range allNames {
			v := appendDiag[i%len(appendDiag)]
			out = append(out, cmd{S: 0, Op: "APPEND", Name: n, C: v.c, Flags: v.flags, Date: v.date})
		}
		for _, n := range []string{"INBOX", "A", "A/x", "B"} {
			out = append(out, cmd{S: 1, Op: "SELECT", Name: n, Leaf: n == "B"})
		}
		out = append(out, cmd{S: 1, Op: "EXAMINE", Name: "A", Leaf: true})
		if m.sess[1].box != nil {
			out = append(out,
				cmd{S: 1, Op: "STORE", Set: "1", Store: "+", Flags: []string{"\\Deleted"}},
				cmd{S: 1, Op: "EXPUNGE"},
				cmd{S: 1, Op: "COPY", Set: "1", Name: "A"},
				cmd{S: 1, Op: "COPY", Set: "1:*", Name: "B"},
				cmd{S: 1, Op: "MOVE", Set: "1", Name: "A/x"},
				cmd{S: 1, Op: "CLOSE"},
				cmd{S: 1, Op: "FETCH", UID: true, Set: "1:*", Leaf: true},
			)
		}
		return filterAmbiguous(m, out)
	}
}

// message-heavy alphabet: both sessions work on INBOX / A; B does not exist (TRYCREATE)
func alphabetMessages(rich bool) func(m *model) []cmd {
	return func(m *model) []cmd {
		var out []cmd
		for s := 0; s < 2; s++ {
			out = append(out, selectedOps(m, s, rich)...)
			out = append(out,
				cmd{S: s, Op: "SELECT", Name: "INBOX"},
				cmd{S: s, Op: "SELECT", Name: "A"},
				cmd{S: s, Op: "EXAMINE", Name: "INBOX"},
				cmd{S: s, Op: "SELECT", Name: "B", Leaf: true},
				cmd{S: s, Op: "EXAMINE", Name: "A", Leaf: true},
			)
			for i, v := range appendDiag {
				out = append(out, cmd{S: s, Op: "APPEND", Name: "INBOX", C: v.c, Flags: v.flags, Date: v.date, Leaf: s == 1 && i > 0})
			}
			out = append(out, cmd{S: s, Op: "APPEND", Name: "A", C: 4, Date: 0, Leaf: s == 1}, cmd{S: s, Op: "APPEND", Name: "B", C: 4, Date: 0, Leaf: true})
			if rich {
				for _, c := range partACorpus {
					for _, fl := range appendFlagSets {
						for d := range appendDates {
							out = append(out, cmd{S: s, Op: "APPEND", Name: "A", C: c, Flags: fl, Date: d, Leaf: true})
						}
					}
				}
			}
		}
		out = append(out,
			cmd{S: 0, Op: "DELETE", Name: "A"},
			cmd{S: 0, Op: "CREATE", Name: "A"},
			cmd{S: 0, Op: "RENAME", Name: "A", Name2: "B", Leaf: true},
			cmd{S: 1, Op: "DELETE", Name: "A", Leaf: true},
		)
		return filterAmbiguous(m, out)
	}
}

func scenarios(thorough bool) []*scenario {
	seedMsgs := []cmd{
		{S: 0, Op: "APPEND", Name: "INBOX", C: 4, Date: 0},
		{S: 0, Op: "APPEND", Name: "INBOX", C: 0, Flags: []string{"\\Seen"}, Date: 1},
		{S: 0, Op: "SELECT", Name: "INBOX"},
		{S: 1, Op: "SELECT", Name: "INBOX"},
	}
	seed3 := []cmd{
		{S: 0, Op: "APPEND", Name: "INBOX", C: 4, Date: 0},
		{S: 0, Op: "APPEND", Name: "INBOX", C: 0, Flags: []string{"\\Seen"}, Date: 1},
		{S: 0, Op: "APPEND", Name: "INBOX", C: 5, Flags: []string{"\\Deleted", "kw"}, Date: 2},
		{S: 0, Op: "SELECT", Name: "INBOX"},
		{S: 1, Op: "SELECT", Name: "INBOX"},
	}
	if !thorough {
		return []*scenario{
			{name: "namespace", pre: []string{"INBOX"}, universe: allNames, alphabet: alphabetNamespace(true), depth: 4},
			{name: "messages-from-empty", pre: []string{"INBOX", "A"}, universe: allNames[:3], alphabet: alphabetMessages(false), depth: 3},
			{name: "messages-two-sessions-on-INBOX(2 msgs), full alphabet", pre: []string{"INBOX", "A"}, universe: allNames[:3], seed: seedMsgs, alphabet: alphabetMessages(true), depth: 2},
			{name: "messages-two-sessions-on-INBOX(2 msgs)", pre: []string{"INBOX", "A"}, universe: allNames[:3], seed: seedMsgs, alphabet: alphabetMessages(false), depth: 3},
			{name: "messages-two-sessions-on-INBOX(3 msgs), full alphabet", pre: []string{"INBOX", "A"}, universe: allNames[:3], seed: seed3, alphabet: alphabetMessages(true), depth: 2},
		}
	}
	return []*scenario{
		{name: "namespace", pre: []string{"INBOX"}, universe: allNames, alphabet: alphabetNamespace(true), depth: 6},
		{name: "messages-from-empty", pre: []string{"INBOX", "A"}, universe: allNames[:3], alphabet: alphabetMessages(false), depth: 6},
		{name: "messages-two-sessions-on-INBOX(2 msgs), full alphabet", pre: []string{"INBOX", "A"}, universe: allNames[:3], seed: seedMsgs, alphabet: alphabetMessages(true), depth: 3},
		{name: "messages-two-sessions-on-INBOX(2 msgs)", pre: []string{"INBOX", "A"}, universe: allNames[:3], seed: seedMsgs, alphabet: alphabetMessages(false), depth: 4},
		{name: "messages-two-sessions-on-INBOX(3 msgs)", pre: []string{"INBOX", "A"}, universe: allNames[:3], seed: seed3, alphabet: alphabetMessages(false), depth: 4},
	}
}
