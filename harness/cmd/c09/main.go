// C09 — in-memory backend (imapserver + imapmemserver) against a reference mailbox model.
//
// Part A (parta.go): explicit-state BFS over command histories issued one at a time by two
// sessions on a real server; after every step the reference model's predictions are compared
// with what a fresh probe connection observes.
// Part B (partb.go): exhaustive query spaces (SEARCH keys, FETCH sections/partials, LIST
// patterns) on fixed mailboxes built from a hand-annotated corpus (corpus.go).
package main

import (
	"encoding/json"
	"fmt"
	"os"
	"runtime/pprof"
	"strings"

	"github.com/emersion/go-imap/v2/verif/vk"
)

var run *vk.Run

// step is one command of a script / history: session index and command text (without tag).
type step struct {
	S   int    `json:"s"`
	Cmd string `json:"cmd"`
}

// script is the replayable form of every counterexample of this check.
type script struct {
	Kind  string   `json:"kind"`  // "history" (part A), "query" (part B) or "raw"
	Pre   []string `json:"pre"`   // mailboxes created directly on the backend before serving
	Steps []step   `json:"steps"` // commands; session -1 = a fresh connection for that command only
	Note  string   `json:"note,omitempty"`
}

// runScript executes a script on a fresh server and prints the transcript.
func runScript(sc script) {
	srv := newServer(sc.Pre...)
	defer srv.close()
	conns := map[int]*conn{}
	for i, st := range sc.Steps {
		var c *conn
		if st.S < 0 {
			c = srv.dial(fmt.Sprintf("p%d_", i))
		} else {
			c = conns[st.S]
			if c == nil {
				c = srv.dial(fmt.Sprintf("s%d_", st.S))
				conns[st.S] = c
			}
		}
		r := c.do(expandCmd(st.Cmd))
		fmt.Printf("--- step %d session %d: %s\n", i, st.S, vk.Q(st.Cmd))
		for _, l := range strings.SplitAfter(r.raw, "\r\n") {
			if l != "" {
				fmt.Printf("    S: %s\n", vk.Q(l))
			}
		}
		if r.problem != "" {
			fmt.Printf("    !! %s\n", r.problem)
		}
		if st.S < 0 {
			c.hangup()
		}
	}
	for _, p := range srv.panics() {
		fmt.Printf("SERVER LOG: %s\n", p)
	}
}

// expandCmd replaces %M<i>% by a non-synchronising literal holding corpus message i, so that
// scripts stay readable.
func expandCmd(cmd string) string {
	for i, m := range corpus {
		mark := fmt.Sprintf("%%M%d%%", i)
		if strings.Contains(cmd, mark) {
			cmd = strings.ReplaceAll(cmd, mark, fmt.Sprintf("{%d+}\r\n%s", len(m.raw), m.raw))
		}
	}
	return cmd
}

func main() {
	run = vk.Start("C09", "model_checking")
	if run.Replay != "" {
		b, err := os.ReadFile(run.Replay)
		if err != nil {
			run.EngineError("replay: %v", err)
		}
		var f struct {
			Key    string
			Detail struct {
				Script script `json:"script"`
			}
		}
		if err := json.Unmarshal(b, &f); err != nil {
			run.EngineError("replay: %v", err)
		}
		fmt.Printf("replay of %s (key %s)\n", run.Replay, f.Key)
		runScript(f.Detail.Script)
		replayOracle(f.Key, f.Detail.Script)
		run.Finish()
	}
	if pf := os.Getenv("C09_PROF"); pf != "" {
		f, _ := os.Create(pf)
		pprof.StartCPUProfile(f)
		defer pprof.StopCPUProfile()
	}
	partA()
	partB()
	finishEvidence()
	pprof.StopCPUProfile()
	run.Finish()
}
