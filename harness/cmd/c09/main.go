// C09 — in-memory backend (imapserver + imapmemserver) against a reference mailbox model.
//
// Part A (parta.go): explicit-state BFS over command histories issued one at a time by two
// sessions on a real server; after every step the reference model's predictions are compared
// with what a fresh probe connection observes.
// Part B (partb.go): exhaustive query spaces (SEARCH keys, FETCH sections/partials, LIST
// patterns) on fixed mailboxes built from a hand-annotated corpus (corpus.go).
package main

import (
	"encoding/json"
	"fmt"
	"os"
	"runtime/debug"
	"runtime/pprof"
	"strings"

	"github.com/emersion/go-imap/v2/verif/vk"
)

var run *vk.Run

// step is one command of a script / history: session index and command text (without tag).
type step struct {
	S   int    `json:"s"`
	Cmd string `json:"cmd"`
}

// script is the replayable form of every counterexample of this check.
type script struct {
	Kind  string   `json:"kind"`  // "history" (part A), "query" (part B) or "raw"
	Pre   []string `json:"pre"`   // mailboxes created directly on the backend before serving
	Steps []step   `json:"steps"` // commands; session -1 = a fresh connection for that command only
	Note  string   `json:"note,omitempty"`
}

// runScript executes a script on a fresh server and prints the transcript.
func runScript(sc script) {
	pre := sc.Pre
	if sc.Kind == "query" {
		pre = []string{"INBOX"}
	}
	srv := newServer(pre...)
	defer srv.close()
	if sc.Kind == "query" {
		buildStore(srv) // the fixed store of part B
	}
	conns := map[int]*conn{}
	for i, st := range sc.Steps {
		var c *conn
		if st.S < 0 {
			c = srv.dial(fmt.Sprintf("p%d_", i))
		} else {
			c = conns[st.S]
			if c == nil {
				c = srv.dial(fmt.Sprintf("s%d_", st.S))
				conns[st.S] = c
			}
		}
		r := c.do(expandCmd(st.Cmd))
		fmt.Printf("--- step %d session %d: %s\n", i, st.S, vk.Q(st.Cmd))
		for _, l := range strings.SplitAfter(r.raw, "\r\n") {
			if l != "" {
				fmt.Printf("    S: %s\n", vk.Q(l))
			}
		}
		if r.problem != "" {
			fmt.Printf("    !! %s\n", r.problem)
		}
		if st.S < 0 {
			c.hangup()
		}
	}
	for _, p := range srv.panics() {
		fmt.Printf("SERVER LOG: %s\n", p)
	}
}

// expandCmd replaces %M<i>% by a non-synchronising literal holding corpus message i, so that
// scripts stay readable.
func expandCmd(cmd string) string {
	for i, m := range corpus {
		mark := fmt.Sprintf("%%M%d%%", i)
		if strings.Contains(cmd, mark) {
			cmd = strings.ReplaceAll(cmd, mark, fmt.Sprintf("{%d+}\r\n%s", len(m.raw), m.raw))
		}
	}
	return cmd
}

func main() {
	run = vk.Start("C09", "model_checking")
	debug.SetGCPercent(400)
	if run.Replay != "" {
		b, err := os.ReadFile(run.Replay)
		if err != nil {
			run.EngineError("replay: %v", err)
		}
		var f struct {
			Key    string
			Detail struct {
				Script script `json:"script"`
			}
		}
		if err := json.Unmarshal(b, &f); err != nil {
			run.EngineError("replay: %v", err)
		}
		fmt.Printf("replay of %s (key %s)\n", run.Replay, f.Key)
		runScript(f.Detail.Script)
		replayOracle(f.Key, f.Detail.Script)
		run.Finish()
	}
	if pf := os.Getenv("C09_PROF"); pf != "" {
		f, _ := os.Create(pf)
		pprof.StartCPUProfile(f)
		defer pprof.StopCPUProfile()
	}
	partA()
	partB()
	finishEvidence()
	pprof.StopCPUProfile()
	run.Finish()
}

// replayOracle re-runs the oracle on a stored counterexample.
func replayOracle(key string, sc script) {
	b, _ := os.ReadFile(run.Replay)
	var f struct {
		Detail struct {
			Scenario string `json:"scenario"`
			History  []cmd  `json:"history"`
		}
	}
	json.Unmarshal(b, &f)
	if sc.Kind != "history" || len(f.Detail.History) == 0 {
		var g struct {
			Detail map[string]interface{} `json:"detail"`
		}
		json.Unmarshal(b, &g)
		var stored []string
		if l, ok := g.Detail["re_execution"].([]interface{}); ok {
			for _, x := range l {
				stored = append(stored, fmt.Sprint(x))
			}
		}
		now := replyOfScript(sc)
		if len(stored) > 0 && strings.Join(stored, "\x00") == strings.Join(now, "\x00") {
			fmt.Println("oracle: the server answers exactly as recorded in the counterexample (expected values: see want/want_one_of in the replay file): still violating")
			run.Violation(key, g.Detail)
		} else {
			fmt.Println("oracle: the server's answers differ from the recorded counterexample: the behaviour changed on this tree (run the check for a verdict)")
			for i := range now {
				fmt.Printf("   now: %s\n", vk.Q(now[i]))
			}
		}
		return
	}
	for _, t := range []bool{false, true} {
		for _, s := range scenarios(t) {
			if s.name != f.Detail.Scenario {
				continue
			}
			n := &node{m: newModel(s.pre)}
			srv := newServer(s.pre...)
			n.m.adoptAndCompare(srv.probe(s.universe), s.universe)
			srv.close()
			for i, c := range f.Detail.History {
				out := execute(s, n, c)
				if out.viol != "" {
					fmt.Printf("oracle: step %d (%s) violates the model: %s\n", i, c.wire(), out.viol)
					for _, d := range out.det["differences"].([]string) {
						fmt.Printf("   %s\n", d)
					}
					run.Violation(out.viol, out.det)
					return
				}
				n = &node{hist: append(append([]cmd{}, n.hist...), c), ok: append(append([]bool{}, n.ok...), out.ok), m: out.m}
			}
			fmt.Println("oracle: the history conforms to the model on this tree")
			return
		}
	}
	fmt.Println("oracle: unknown scenario " + f.Detail.Scenario)
}

func partA() {
	var all []scenStats
	for _, sc := range scenarios(run.Thorough()) {
		st := bfs(sc)
		all = append(all, st)
		run.States += st.States
		run.Trans += st.Transitions
		run.Traces += st.Transitions
	}
	run.Set("A_scenarios", all)
	nvm := map[string]int64{
		"seq-addressed command issued on a stale view":                   nv.staleSeq,
		"APPENDUID checked":                                              nv.appendUID,
		"COPYUID checked":                                                nv.copyUID,
		"transitions that removed messages":                              nv.expunged,
		"STORE transitions that changed flags":                           nv.storeChanged,
		"CREATE of a name that existed before (UIDVALIDITY clause)":      nv.recreated,
		"new message in a mailbox whose highest UID was expunged before": nv.uidGap,
	}
	run.Set("A_non_vacuity", nvm)
	var violating int64
	for _, st := range all {
		violating += st.Violating
		if st.SeedViolated {
			violating = run.Trans // a seed prefix already violates: the scenarios behind it were not explored
		}
	}
	for k, v := range nvm {
		if v == 0 {
			if violating*4 > run.Trans {
				// the search was cut short by violations at (nearly) every state: that is a verdict, not an engine problem
				run.Set("A_non_vacuity_not_reached_because_violations_cut_the_search", true)
				continue
			}
			run.EngineError("non-vacuity counter %q is 0: the exploration never exercised that clause", k)
		}
	}
}

func finishEvidence() {
	vc := map[string]int64{}
	violCount.Range(func(k, v interface{}) bool { vc[k.(string)] = *(v.(*int64)); return true })
	bViol.Range(func(k, v interface{}) bool { vc[k.(string)] += *(v.(*int64)); return true })
	run.Set("violating_cases_per_key", vc)
	run.Set("B_search_commands", bst.searchCmds)
	run.Set("B_search_commands_with_nontrivial_result", bst.searchNonEmpty)
	run.Set("B_fetch_commands", bst.fetchCmds)
	run.Set("B_fetch_compared_with_section_table", bst.fetchCompared)
	run.Set("B_fetch_on_parts_that_do_not_exist(empty/NIL/refusal)", bst.fetchMissing)
	run.Set("B_fetch_on_unspecified_sections(framing only)", bst.fetchUnspecified)
	run.Set("B_list_commands", bst.listCmds)
	run.Set("B_misc_commands", bst.miscCmds)
	run.Set("B_commands_that_killed_the_connection", bst.crashes)
	for k, v := range map[string]int64{"B search commands with a non-trivial result": bst.searchNonEmpty, "B fetches compared with the section table": bst.fetchCompared,
		"B fetches of parts that do not exist": bst.fetchMissing, "B list commands": bst.listCmds} {
		if v == 0 && !bSkipped {
			run.EngineError("non-vacuity counter %q is 0", k)
		}
	}
	run.AddEvals(run.Trans + bst.searchCmds + bst.fetchCmds + bst.listCmds + bst.miscCmds)
	run.NontrivialN(run.States + bst.searchNonEmpty + bst.fetchCompared)
	run.Exhaustive = true
	run.Rule = "A: BFS over histories of a fresh imapserver+imapmemserver per transition (replay + 1 command), two sessions, one command at a time; per scenario: fixed seed prefix + every sequence of <= depth commands of the scenario alphabet (extending commands; leaf-only commands are executed and judged at every state but not extended); dedup on the canonical reference-model state incl. per-session selected mailbox, view and undelivered updates; after every step a fresh probe connection compares LIST/LSUB/LIST(SUBSCRIBED)/LIST-STATUS, and per name STATUS(6 items)/UID FETCH 1:* (UID FLAGS INTERNALDATE RFC822.SIZE)/UID SEARCH ALL/SEARCH ALL with the model. B: SEARCH: every leaf key, NOT k, NOT NOT k, (k), every ordered pair (AND) and OR k k' [+ NOT (k k'), NOT OR, OR NOT, cubic forms over a class-representative subset] x {SEARCH, UID SEARCH} x {plain, RETURN (MIN MAX COUNT ALL)} on 3 mailboxes against refmodel.Match; the life cycle of the saved search result '$' (empty after SELECT, set by SAVE incl. to the empty set, set again after a refused SAVE, shrunk by EXPUNGE, reset by SELECT) read back through UID SEARCH $, UID SEARCH UID $ and UID FETCH $; FETCH: 10 part paths x 6 specifiers x PEEK x (no partial + 7 offsets x 4 sizes) per corpus message against a hand-written section table; LIST: pattern family x 4 references x {LIST, LSUB, LIST (SUBSCRIBED)}; BODYSTRUCTURE/ENVELOPE/macros/STATUS items: framing clause only"
	for _, a := range []string{
		"flat namespace: names are opaque keys; RENAME/DELETE of a name that has inferiors ('A' while 'A/x' exists), RENAME INBOX, DELETE INBOX and RENAME A A/x are outside the alphabet (the statement does not promise hierarchy semantics)",
		"free values are adopted, not predicted: UIDVALIDITY, UIDs of new messages, UIDNEXT — after checking: new UID > every UID ever assigned in the mailbox, UIDNEXT > every UID and never decreasing, UIDVALIDITY constant for a mailbox object and different from every earlier, different mailbox of the same name",
		"subscriptions: RFC 3501 §6.3.6 keeps a name subscribed when its mailbox is deleted/renamed, imapmemserver drops/moves it with the mailbox object; the statement does not mention it: LSUB / LIST (SUBSCRIBED) are unconstrained for such a name until the next SUBSCRIBE/UNSUBSCRIBE of it (observation, not a violation). SUBSCRIBE of a nonexistent name and UNSUBSCRIBE of a not-subscribed name may answer OK or NO",
		"a session whose selected mailbox is deleted or renamed keeps operating on the mailbox object (RFC 9051 §6.3.4 permits it)",
		"when a session learns of other sessions' changes is implementation policy: the model mirrors imapserver's (a successful command polls; after FETCH/STORE/SEARCH expunges and everything queued behind the first one are withheld); untagged EXISTS/EXPUNGE/FETCH-flags updates themselves are C08's subject and are not judged here",
		"a UID set containing '*' is not issued while the session has not been told about the newest message (RFC leaves open which message '*' means then)",
		"COPY/MOVE of a mailbox onto itself and COPY/MOVE addressing no message may answer OK or NO; numbers beyond the session's view address nothing",
		"EXAMINE: STORE/EXPUNGE may answer NO or OK-without-effect; the mailbox must not change (RFC 9051 §6.3.3)",
		"FETCH of a part that does not exist must be refused or return NIL/an empty string (data could only belong to another part); FETCH sections the RFC does not define (HEADER/TEXT of a part that is not message/rfc822, MIME without part number, '.1' of a leaf part) are only checked for the framing clause; BODY[HEADER] of a message without the blank line may or may not end with CRLF",
		"origin octets >= 2^32 cannot be represented in the response ('<' number '>'): only the content is compared there; partial size 0 is not syntactically valid and not issued",
		"SEARCH: no key matches RFC 2047 encoded words, MIME-decoded content or 8-bit text; dates are compared in the zone the INTERNALDATE/Date header carries; every corpus message has a Date header",
		"LIST: patterns beginning with the hierarchy delimiter and references not ending with it are not issued (RFC 9051 §6.3.9: implementation-dependent); INBOX is matched case-sensitively in patterns",
		"exhaustive=true means: the bounded spaces described in rule were enumerated completely (no time budget cuts them)",
	} {
		run.Assume(a)
	}
	run.Sample("history", "a: APPEND INBOX …; a: SELECT INBOX; b: SELECT INBOX; a: MOVE 2 A; b: STORE * +FLAGS (\\deleted)")
	run.Sample("search", "UID SEARCH RETURN (MIN MAX COUNT ALL) OR NOT SENTON 10-Mar-2024 HEADER X-Empty \"\"")
	run.Sample("fetch", "FETCH 3 (BODY[3.HEADER.FIELDS (SUBJECT X-FOLDED NOPE)]<1.4294967296>)")
}
