package main

// Part B, saved search results ("$", RFC 5182 / RFC 9051 §6.4.4.1): a scripted life cycle of the
// variable on the part-B store — empty after SELECT, set by a successful SAVE (also to the empty
// set), set again after a refused SAVE, shrunk by EXPUNGE, reset by a new SELECT — each
// step compared with the reference model.

import (
	"fmt"
	"sort"
	"strings"
	"sync/atomic"

	imap "github.com/emersion/go-imap/v2"
	"github.com/emersion/go-imap/v2/verif/refmodel"
)

func partBSearchRes() {
	srv := newServer("INBOX")
	defer srv.close()
	boxes := buildStore(srv)
	b := boxes[0]
	c := srv.dial("sr")
	defer c.hangup()
	uidsWhere := func(f func(m *refmodel.Msg) bool) []uint32 {
		var out []uint32
		for _, m := range b.msgs {
			if f(m) {
				out = append(out, m.UID)
			}
		}
		return out
	}
	seen := uidsWhere(func(m *refmodel.Msg) bool {
		return refmodel.Match(&imap.SearchCriteria{Flag: []imap.Flag{imap.FlagSeen}}, m)
	})
	all := uidsWhere(func(m *refmodel.Msg) bool { return true })
	if len(seen) == 0 || len(seen) == len(all) {
		run.EngineError("part B searchres: SEEN is trivial on INBOX (%d of %d)", len(seen), len(all))
	}
	var done []string
	fail := func(key, cmd string, r reply, want []uint32, got []uint32) {
		bViolation("searchres:"+key, map[string]interface{}{"script": bScript("", false, append(append([]string{}, done...), cmd)...),
			"reply": r.raw, "want_uids": want, "got_uids": got})
	}
	// do runs a command that must be answered with the given status
	do := func(cmd, status string) reply {
		r := c.do(cmd)
		atomic.AddInt64(&bst.searchCmds, 1)
		if r.problem != "" || r.status != status {
			fail("unexpected-status:"+strings.Fields(cmd)[0], cmd, r, nil, nil)
		}
		done = append(done, cmd)
		return r
	}
	// expect checks what "$" stands for through three commands
	expect := func(key string, want []uint32) {
		for _, cmd := range []string{"UID SEARCH $", "UID SEARCH UID $", "UID FETCH $ (UID)"} {
			r := c.do(cmd)
			atomic.AddInt64(&bst.searchCmds, 1)
			var got []uint32
			if strings.Contains(cmd, "FETCH") {
				for _, u := range r.untagged("FETCH") {
					if fr, err := parseFetch(u); err == nil {
						if n, ok := u32(fr.items["UID"].atom); ok {
							got = append(got, n)
						}
					}
				}
			} else {
				for _, l := range r.untagged("SEARCH") {
					for _, w := range l.Words()[1:] {
						if n, ok := u32(w); ok {
							got = append(got, n)
						}
					}
				}
				for _, l := range r.untagged("ESEARCH") {
					if e, ok := parseESearch(l, r.tag); ok {
						got = append(got, e.all...)
					}
				}
			}
			sort.Slice(got, func(i, j int) bool { return got[i] < got[j] })
			if r.problem != "" || r.status != "OK" || joinU32(got) != joinU32(want) {
				fail(key, cmd, r, want, got)
				return
			}
		}
	}
	do("SELECT INBOX", "OK")
	expect("not-empty-after-select", nil)
	do("SEARCH RETURN (SAVE) SEEN", "OK")
	expect("saved-result-wrong", seen)
	do("SEARCH RETURN (SAVE) HEADER Subject nothing-like-this-anywhere", "OK")
	expect("empty-result-not-saved", nil)
	// UID EXPUNGE $ with an empty saved result removes nothing, whatever is flagged \Deleted
	do(fmt.Sprintf("UID STORE %d +FLAGS.SILENT (\\Deleted)", all[0]), "OK")
	if r := do("UID EXPUNGE $", "OK"); len(r.untagged("EXPUNGE")) > 0 {
		fail("uid-expunge-of-empty-saved-result-removes-messages", "UID EXPUNGE $", r, nil, nil)
	}
	if r := c.do("UID SEARCH ALL"); true {
		var got []uint32
		for _, l := range r.untagged("SEARCH") {
			for _, w := range l.Words()[1:] {
				if n, ok := u32(w); ok {
					got = append(got, n)
				}
			}
		}
		for _, l := range r.untagged("ESEARCH") {
			if e, ok := parseESearch(l, r.tag); ok {
				got = append(got, e.all...)
			}
		}
		sort.Slice(got, func(i, j int) bool { return got[i] < got[j] })
		if joinU32(got) != joinU32(all) {
			fail("uid-expunge-of-empty-saved-result-removes-messages", "UID SEARCH ALL", r, all, got)
		}
	}
	do("UID SEARCH RETURN (SAVE) LARGER 1", "OK")
	expect("saved-result-wrong:uid-search", all)
	// a SAVE that is refused: RFC 5182 §2.1 ties the effect on the variable to the status word (BAD:
	// unchanged, NO: emptied); the bundled server answers a malformed key with NO [SERVERBUG] and
	// keeps the variable, i.e. it behaves as for BAD under the wrong status word — which status a
	// malformed key gets is outside this property, so only the framing is judged here and the
	// variable is set again before the next step
	if r := c.do("SEARCH RETURN (SAVE) NOSUCHKEY"); r.problem != "" || r.status == "OK" {
		fail("unexpected-status:SEARCH", "SEARCH RETURN (SAVE) NOSUCHKEY", r, nil, nil)
	}
	done = append(done, "SEARCH RETURN (SAVE) NOSUCHKEY")
	do("UID SEARCH RETURN (SAVE) LARGER 1", "OK")
	expect("saved-result-wrong:after-a-refused-save", all)
	// EXPUNGE removes the expunged message from the variable
	do(fmt.Sprintf("UID STORE %d +FLAGS.SILENT (\\Deleted)", all[0]), "OK")
	var del []uint32
	for _, m := range b.msgs {
		for _, f := range m.Flags {
			if strings.EqualFold(f, "\\Deleted") {
				del = append(del, m.UID)
			}
		}
	}
	do("EXPUNGE", "OK")
	var left []uint32
	for _, u := range all[1:] {
		gone := false
		for _, d := range del {
			if d == u {
				gone = true
			}
		}
		if !gone {
			left = append(left, u)
		}
	}
	expect("expunged-message-still-in-saved-result", left)
	do("SELECT INBOX", "OK")
	expect("not-reset-by-select", nil)
	atomic.AddInt64(&bst.miscCmds, 1)
}
