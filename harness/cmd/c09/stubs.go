package main

import "fmt"

func partA() {
	for _, sc := range scenarios(run.Thorough()) {
		st := bfs(sc)
		fmt.Printf("%+v\n", st)
		run.States += st.States
		run.Trans += st.Transitions
	}
}
func partB()                              {}
func finishEvidence()                     {}
func replayOracle(key string, sc script) {}
