package main

import (
	"fmt"
	"os"
	"runtime"
	"sort"
	"strconv"
	"strings"

	imap "github.com/emersion/go-imap/v2"
	"github.com/emersion/go-imap/v2/imapserver"
	"github.com/emersion/go-imap/v2/imapserver/imapmemserver"
	"github.com/emersion/go-imap/v2/verif/srvkit"
)

// ---------- a real server + real in-memory backend on the in-memory network ----------

type server struct {
	seenPanics int
	h          *srvkit.Harness
	mem        *imapmemserver.Server
	user       *imapmemserver.User
}

// newServer builds a fresh imapserver.Server whose sessions come from a fresh imapmemserver
// with one user; preCreate names are created directly on the backend (user.Create).
func newServer(preCreate ...string) *server {
	s := &server{mem: imapmemserver.New()}
	s.user = imapmemserver.NewUser("u", "p")
	for _, n := range preCreate {
		if err := s.user.Create(n, nil); err != nil {
			run.EngineError("user.Create(%q): %v", n, err)
		}
	}
	s.mem.AddUser(s.user)
	opts := imapserver.Options{
		NewSession: func(c *imapserver.Conn) (imapserver.Session, *imapserver.GreetingData, error) {
			return s.mem.NewSession(), nil, nil
		},
		InsecureAuth: true,
		Caps:         imap.CapSet{imap.CapIMAP4rev1: {}, imap.CapIMAP4rev2: {}, imap.CapLiteralPlus: {}},
	}
	s.h = srvkit.NewHarness(opts)
	return s
}

func (s *server) close() { s.h.Close() }

// panics returns the server log lines that report a panic.
func (s *server) panics() []string {
	var out []string
	for _, l := range s.h.Log.Snapshot() {
		if strings.Contains(l, "panic") {
			if i := strings.Index(l, "\n"); i > 0 {
				// keep the message and the first frames that are in go-imap
				lines := strings.Split(l, "\n")
				keep := []string{lines[0]}
				for _, x := range lines[1:] {
					if strings.Contains(x, "go-imap") && strings.Contains(x, "(") && !strings.Contains(x, ").serve(") && !strings.Contains(x, "runtime/") && len(keep) < 6 {
						keep = append(keep, strings.TrimSpace(x))
					}
				}
				l = strings.Join(keep, " | ")
			}
			out = append(out, l)
		}
	}
	return out
}

type conn struct {
	srv    *server
	p      *srvkit.Pipe
	n      int
	prefix string
	closed bool
}

// dial opens a connection, consumes the greeting and logs in.
func (s *server) dial(prefix string) *conn {
	c := &conn{srv: s, p: s.h.Ln.Dial(), prefix: prefix}
	out, closed, err := c.p.Quiesce()
	if err != nil || closed || !strings.HasPrefix(string(out), "* OK") {
		run.EngineError("greeting: %q closed=%v err=%v", out, closed, err)
	}
	r := c.do("LOGIN u p")
	if r.problem != "" || r.status != "OK" {
		run.EngineError("login failed: %+v", r)
	}
	return c
}

type reply struct {
	tag      string
	cmd      string
	resps    []srvkit.Resp // untagged + tagged, in order
	status   string        // OK / NO / BAD of the tagged reply ("" when there is none)
	text     string        // text of the tagged reply after the status word
	problem  string        // non-empty when the framing clause is violated: closed / no-tagged / ...
	panicLog string        // the server's panic report, when the command made it panic
	raw      string
}

// do sends one command (the tag is prepended; the command may contain non-synchronising
// literals) as a single segment and waits for the server to become quiescent.
func (c *conn) do(cmd string) reply {
	c.n++
	tag := fmt.Sprintf("%s%d", c.prefix, c.n)
	r := reply{tag: tag, cmd: cmd}
	if c.closed {
		r.problem = "connection-already-closed"
		return r
	}
	c.p.SendString(tag + " " + cmd + "\r\n")
	out, closed, err := c.p.Quiesce()
	if err != nil {
		run.EngineError("watchdog/IO on %q: %v", cmd, err)
	}
	r.raw = string(out)
	resps, rest, perr := srvkit.ParseResponses(out)
	r.resps = resps
	var tagged []srvkit.Resp
	for _, x := range resps {
		if x.Tag != "*" && x.Tag != "+" {
			tagged = append(tagged, x)
		}
	}
	if len(tagged) == 1 && tagged[0].Tag == tag {
		w := strings.SplitN(tagged[0].Text, " ", 2)
		r.status = strings.ToUpper(w[0])
		if len(w) > 1 {
			r.text = w[1]
		}
	}
	switch {
	case closed:
		c.closed = true
		r.problem = "connection-closed"
	case perr != nil:
		r.problem = "malformed-output"
	case len(rest) > 0:
		r.problem = "incomplete-output"
	case len(tagged) == 0:
		r.problem = "no-tagged-reply"
	case len(tagged) > 1:
		r.problem = "several-tagged-replies"
	case tagged[0].Tag != tag:
		r.problem = "wrong-tag"
	case r.status != "OK" && r.status != "NO" && r.status != "BAD":
		r.problem = "bad-status-word"
	case resps[len(resps)-1].Tag != tag:
		r.problem = "data-after-tagged-reply"
	}
	return r
}

func (c *conn) hangup() {
	if !c.closed {
		c.p.CloseWrite()
		c.p.Quiesce()
		c.closed = true
	}
}

// untagged returns the untagged responses of the given kind (EXISTS, FETCH, SEARCH, LIST …).
func (r reply) untagged(kind string) []srvkit.Resp {
	var out []srvkit.Resp
	for _, x := range r.resps {
		if x.Tag == "*" && x.Kind() == kind {
			out = append(out, x)
		}
	}
	return out
}

// respCode extracts "[CODE args]" from the tagged reply (or from an untagged OK for MOVE).
func respCode(text string) (code string, args []string) {
	if !strings.HasPrefix(text, "[") {
		return "", nil
	}
	i := strings.IndexByte(text, ']')
	if i < 0 {
		return "", nil
	}
	f := strings.Fields(text[1:i])
	if len(f) == 0 {
		return "", nil
	}
	return strings.ToUpper(f[0]), f[1:]
}

// ---------- tiny independent parsers for the response data we compare ----------

// parseSet expands "1:3,5" (no '*').
func parseSet(s string) ([]uint32, bool) {
	var out []uint32
	for _, part := range strings.Split(s, ",") {
		a, b, isRange := strings.Cut(part, ":")
		x, err := strconv.ParseUint(a, 10, 32)
		if err != nil {
			return nil, false
		}
		y := x
		if isRange {
			y, err = strconv.ParseUint(b, 10, 32)
			if err != nil {
				return nil, false
			}
		}
		if y < x {
			x, y = y, x
		}
		if y-x > 100000 {
			return nil, false
		}
		for v := x; v <= y; v++ {
			out = append(out, uint32(v))
		}
	}
	return out, true
}

// sexp is a parsed parenthesised IMAP value.
type sexp struct {
	atom string // atom / number / quoted content / NIL
	lit  []byte // literal payload (atom == "" and isLit)
	list []sexp
	kind byte // 'a' atom, 'q' quoted, 'l' literal, '(' list
}

func (s sexp) String() string {
	switch s.kind {
	case '(':
		var p []string
		for _, x := range s.list {
			p = append(p, x.String())
		}
		return "(" + strings.Join(p, " ") + ")"
	case 'q':
		return strconv.Quote(s.atom)
	case 'l':
		return fmt.Sprintf("{%d}", len(s.lit))
	}
	return s.atom
}

// parseSexps tokenises a response text (with the ␀LITn␀ markers of srvkit) into values.
func parseSexps(text string, lits [][]byte) ([]sexp, error) {
	pos := 0
	var parseList func(depth int) ([]sexp, error)
	parseList = func(depth int) ([]sexp, error) {
		var out []sexp
		for pos < len(text) {
			ch := text[pos]
			switch {
			case ch == ' ':
				pos++
			case ch == '(':
				pos++
				l, err := parseList(depth + 1)
				if err != nil {
					return nil, err
				}
				out = append(out, sexp{kind: '(', list: l})
			case ch == ')':
				if depth == 0 {
					return nil, fmt.Errorf("unbalanced ) at %d", pos)
				}
				pos++
				return out, nil
			case ch == '"':
				pos++
				var sb strings.Builder
				for {
					if pos >= len(text) {
						return nil, fmt.Errorf("unterminated quoted string")
					}
					if text[pos] == '\\' && pos+1 < len(text) {
						sb.WriteByte(text[pos+1])
						pos += 2
						continue
					}
					if text[pos] == '"' {
						pos++
						break
					}
					sb.WriteByte(text[pos])
					pos++
				}
				out = append(out, sexp{kind: 'q', atom: sb.String()})
			case ch == 0:
				j := strings.IndexByte(text[pos+1:], 0)
				if j < 0 || !strings.HasPrefix(text[pos+1:], "LIT") {
					return nil, fmt.Errorf("bad literal marker")
				}
				idx, err := strconv.Atoi(text[pos+4 : pos+1+j])
				if err != nil || idx >= len(lits) {
					return nil, fmt.Errorf("bad literal index")
				}
				out = append(out, sexp{kind: 'l', lit: lits[idx]})
				pos += j + 2
			default:
				start := pos
				brack := 0
				for pos < len(text) {
					c := text[pos]
					if c == '[' {
						brack++
					} else if c == ']' {
						brack--
					}
					if brack == 0 && (c == ' ' || c == '(' || c == ')' || c == 0) {
						break
					}
					if brack > 0 && c == 0 {
						break
					}
					pos++
				}
				out = append(out, sexp{kind: 'a', atom: text[start:pos]})
			}
		}
		if depth != 0 {
			return nil, fmt.Errorf("unbalanced (")
		}
		return out, nil
	}
	return parseList(0)
}

// fetchItems parses "* n FETCH (k v k v …)" into a map; keys are upper-cased item names
// (BODY[...]<o> kept verbatim, upper-cased).
type fetchResp struct {
	seq   uint32
	items map[string]sexp
	order []string
}

func parseFetch(r srvkit.Resp) (*fetchResp, error) {
	vals, err := parseSexps(r.Text, r.Literals)
	if err != nil {
		return nil, err
	}
	if len(vals) != 3 || vals[1].atom != "FETCH" || vals[2].kind != '(' {
		return nil, fmt.Errorf("not a FETCH response: %q", r.Text)
	}
	n, err := strconv.ParseUint(vals[0].atom, 10, 32)
	if err != nil {
		return nil, err
	}
	fr := &fetchResp{seq: uint32(n), items: map[string]sexp{}}
	l := vals[2].list
	for i := 0; i < len(l); {
		if l[i].kind != 'a' {
			return nil, fmt.Errorf("FETCH item name expected, got %v", l[i])
		}
		name := l[i].atom
		i++
		// BODY[HEADER.FIELDS (a b)]<0> is tokenised as one atom thanks to bracket tracking,
		// except that the list inside the brackets may contain quoted strings: those were
		// consumed as part of the atom too (we only break on space outside brackets).
		if i >= len(l) {
			return nil, fmt.Errorf("FETCH item %q without value", name)
		}
		fr.items[strings.ToUpper(name)] = l[i]
		fr.order = append(fr.order, strings.ToUpper(name))
		i++
	}
	return fr, nil
}

func flagSetOf(v sexp) []string {
	var out []string
	for _, x := range v.list {
		out = append(out, strings.ToLower(x.atom))
	}
	sort.Strings(out)
	return out
}

func u32(s string) (uint32, bool) {
	n, err := strconv.ParseUint(s, 10, 32)
	return uint32(n), err == nil
}

func joinU32(l []uint32) string {
	var p []string
	for _, x := range l {
		p = append(p, strconv.FormatUint(uint64(x), 10))
	}
	return strings.Join(p, ",")
}

// workers: every execution is a chain of hand-offs between the driver goroutine and the server
// goroutines, so more drivers than cores are needed to keep the cores busy.
func workers() int {
	n := runtime.GOMAXPROCS(0) * 4
	if v := os.Getenv("C09_WORKERS"); v != "" {
		if x, err := strconv.Atoi(v); err == nil && x > 0 {
			n = x
		}
	}
	return n
}
