package main

import (
	"bytes"
	"fmt"
	"sync"

	"github.com/emersion/go-imap/v2/imapclient"
)

// The inputs of this check are written with the placeholder tags T1, T2, … for the commands the
// harness keeps pending. The syntax of tags is the client's private choice, so the real sequence is
// learnt once per process and put in when a stream is fed to the client (identity on this tree).

var (
	tagOnce  sync.Once
	realTags [][]byte // realTags[k-1] = tag of the client's k-th command
)

func learnTags() {
	const n = 48
	conn := newFakeConn()
	conn.keep = true
	c := imapclient.New(conn, nil)
	conn.feedRaw([]byte("* PREAUTH [CAPABILITY IMAP4rev1] ready\r\n"))
	if c.WaitGreeting() != nil {
		return
	}
	var tags [][]byte
	for i := 0; i < n; i++ {
		mark := conn.wroteLen()
		cmd := c.Noop()
		if !conn.waitWritten([]byte("NOOP\r\n")) {
			break
		}
		line := conn.wroteSince(mark)
		sp := bytes.IndexByte(line, ' ')
		if sp <= 0 {
			break
		}
		tag := append([]byte{}, line[:sp]...)
		conn.feedRaw(append(append([]byte{}, tag...), []byte(" OK done\r\n")...))
		if cmd.Wait() != nil {
			break
		}
		tags = append(tags, tag)
	}
	c.Close()
	if len(tags) == n {
		realTags = tags
	}
}

func isTagByte(b byte) bool { return b >= '0' && b <= '9' }

// retag replaces the placeholder tokens T<k> (k within the learnt range, delimited like a tag or
// a correlator value) by the client's real tags.
func retag(b []byte) []byte {
	tagOnce.Do(learnTags)
	if realTags == nil {
		return b
	}
	identity := true
	for i, t := range realTags {
		if string(t) != fmt.Sprintf("T%d", i+1) {
			identity = false
			break
		}
	}
	if identity {
		return b
	}
	var out []byte
	for i := 0; i < len(b); {
		if b[i] == 'T' && i+1 < len(b) && isTagByte(b[i+1]) && (i == 0 || b[i-1] == '\n' || b[i-1] == ' ' || b[i-1] == '"' || b[i-1] == '(') {
			j := i + 1
			k := 0
			for j < len(b) && isTagByte(b[j]) && j-i < 4 {
				k = k*10 + int(b[j]-'0')
				j++
			}
			if k >= 1 && k <= len(realTags) && (j == len(b) || b[j] == ' ' || b[j] == '"' || b[j] == ')' || b[j] == '\r') {
				out = append(out, realTags[k-1]...)
				i = j
				continue
			}
		}
		out = append(out, b[i])
		i++
	}
	return out
}
