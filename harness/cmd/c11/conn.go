package main

import (
	"bytes"
	"io"
	"net"
	"sync"
	"time"
)

// fakeConn is the in-memory connection the client under test reads from. Reads hand out what
// the harness fed (whole, in order), then io.EOF; writes are swallowed (the last 256 bytes are
// kept so that the harness can wait for "IDLE\r\n"); deadlines are counted and ignored (no
// clock in the oracle).
type fakeConn struct {
	mu        sync.Mutex
	cond      *sync.Cond
	buf       []byte
	off       int
	eof       bool
	eofSeen   bool
	closed    bool
	reads     int64
	deadlines int64
	written   int64
	wtail     []byte
	keep      bool   // keep everything the client writes (tag learning)
	wall      []byte // all bytes written, when keep is set
}

func newFakeConn() *fakeConn {
	c := &fakeConn{}
	c.cond = sync.NewCond(&c.mu)
	return c
}

// feed hands bytes to the client; placeholder tags are replaced by the client's real ones.
func (c *fakeConn) feed(b []byte) { c.feedRaw(retag(b)) }

func (c *fakeConn) feedRaw(b []byte) {
	c.mu.Lock()
	c.buf = append(c.buf, b...)
	c.cond.Broadcast()
	c.mu.Unlock()
}

func (c *fakeConn) wroteLen() int {
	c.mu.Lock()
	defer c.mu.Unlock()
	return len(c.wall)
}

func (c *fakeConn) wroteSince(mark int) []byte {
	c.mu.Lock()
	defer c.mu.Unlock()
	return append([]byte{}, c.wall[mark:]...)
}

func (c *fakeConn) feedEOF() {
	c.mu.Lock()
	c.eof = true
	c.cond.Broadcast()
	c.mu.Unlock()
}

// waitDrained blocks until the client has been handed EOF or has closed the connection itself.
func (c *fakeConn) waitDrained() {
	c.mu.Lock()
	for !c.eofSeen && !c.closed {
		c.cond.Wait()
	}
	c.mu.Unlock()
}

// waitWritten blocks until the client has written something ending in suffix (or closed).
func (c *fakeConn) waitWritten(suffix []byte) bool {
	c.mu.Lock()
	defer c.mu.Unlock()
	for !bytes.HasSuffix(c.wtail, suffix) {
		if c.closed {
			return false
		}
		c.cond.Wait()
	}
	return true
}

func (c *fakeConn) Read(p []byte) (int, error) {
	c.mu.Lock()
	defer c.mu.Unlock()
	for c.off == len(c.buf) && !c.eof && !c.closed {
		c.cond.Wait()
	}
	if c.closed {
		return 0, net.ErrClosed
	}
	c.reads++
	if c.off < len(c.buf) {
		n := copy(p, c.buf[c.off:])
		c.off += n
		return n, nil
	}
	c.eofSeen = true
	c.cond.Broadcast()
	return 0, io.EOF
}

func (c *fakeConn) Write(p []byte) (int, error) {
	c.mu.Lock()
	defer c.mu.Unlock()
	if c.closed {
		return 0, net.ErrClosed
	}
	c.written += int64(len(p))
	if c.keep {
		c.wall = append(c.wall, p...)
	}
	c.wtail = append(c.wtail, p...)
	if len(c.wtail) > 256 {
		c.wtail = append(c.wtail[:0], c.wtail[len(c.wtail)-128:]...)
	}
	c.cond.Broadcast()
	return len(p), nil
}

func (c *fakeConn) Close() error {
	c.mu.Lock()
	defer c.mu.Unlock()
	if c.closed {
		return net.ErrClosed
	}
	c.closed = true
	c.cond.Broadcast()
	return nil
}

func (c *fakeConn) consumed() int64 {
	c.mu.Lock()
	defer c.mu.Unlock()
	return int64(c.off)
}

type fakeAddr struct{}

func (fakeAddr) Network() string { return "mem" }
func (fakeAddr) String() string  { return "mem" }

func (c *fakeConn) LocalAddr() net.Addr  { return fakeAddr{} }
func (c *fakeConn) RemoteAddr() net.Addr { return fakeAddr{} }
func (c *fakeConn) SetDeadline(time.Time) error {
	c.mu.Lock()
	c.deadlines++
	c.mu.Unlock()
	return nil
}
func (c *fakeConn) SetReadDeadline(time.Time) error {
	c.mu.Lock()
	c.deadlines++
	c.mu.Unlock()
	return nil
}
func (c *fakeConn) SetWriteDeadline(time.Time) error { return nil }
