package main

import (
	"fmt"
	"strings"
)

// ---- (i) response grammar ----
//
// A symbol is a terminal string or a nonterminal. Alternative 0 of a nonterminal is its
// default; every other alternative costs one unit of the derivation budget, so "budget K"
// enumerates every derivation that departs from the all-default derivation of a top-level
// production in at most K choice points (recursive productions recurse only through
// non-default alternatives, so K also bounds the nesting).

type sym interface{}

type nt struct {
	name string
	alts [][]sym
}

func alt(xs ...sym) []sym { return xs }

var allNTs []*nt

func N(name string, alts ...[]sym) *nt {
	n := &nt{name: name, alts: alts}
	allNTs = append(allNTs, n)
	return n
}

// T is a terminal class: one alternative per representative.
func T(name string, terms ...string) *nt {
	n := &nt{name: name}
	for _, t := range terms {
		n.alts = append(n.alts, []sym{t})
	}
	allNTs = append(allNTs, n)
	return n
}

type top struct {
	name string
	seq  []sym
}

func expandSeq(seq []sym, budget int, prefix []byte, emit func(p []byte, left int)) {
	if len(seq) == 0 {
		emit(prefix, budget)
		return
	}
	switch s := seq[0].(type) {
	case string:
		expandSeq(seq[1:], budget, append(prefix, s...), emit)
	case *nt:
		n := len(prefix)
		for ai, a := range s.alts {
			cost := 0
			if ai > 0 {
				cost = 1
			}
			if cost > budget {
				break
			}
			expandSeq(a, budget-cost, prefix[:n], func(p []byte, left int) {
				expandSeq(seq[1:], left, p, emit)
			})
		}
	default:
		panic(fmt.Sprintf("bad symbol %T", s))
	}
}

func cat(parts ...interface{}) []sym {
	var out []sym
	for _, p := range parts {
		switch p := p.(type) {
		case []sym:
			out = append(out, p...)
		default:
			out = append(out, p)
		}
	}
	return out
}

const (
	n32     = "4294967295"
	n32o    = "4294967296"
	n63     = "9223372036854775807"
	n63o    = "9223372036854775808"
	n64o    = "18446744073709551616"
	lit1    = "{1}\r\nl"
	lit81   = "~{1}\r\nl"
	envDflt = `("Mon, 7 Feb 1994 21:52:25 -0800 (PST)" "subj" NIL NIL NIL NIL NIL NIL NIL "<id@h>")`
)

func buildGrammar() (tops []top, productions int) {
	allNTs = nil
	NUM := T("number", "1", "0", n32, n32o, n63, n63o, n64o)
	SET := T("set", "1", "1:*", "*", "$", "0", "1:0", n32, "1:"+n32, "2,4:6")
	// buffered literals whose announced size is a boundary number or simply far more than what
	// follows (and than the worker's address-space limit): 2^62, 2^63-1, 16 GiB
	STR := T("nstring", `"q"`, "A", lit1, lit81, "NIL", "{4611686018427387904}\r\nabc", "{"+n63+"}\r\nabc", "{17179869184}\r\nabc")
	MBOX := T("mailbox", "INBOX", `"inbox"`, "{5}\r\nINBOX", `"a&-b"`, `"&"`, `"&AOk-"`, "NIL", lit81, "other", "{4611686018427387904}\r\nabc", "{17179869184}\r\nabc")
	FLAG := T("flag", `\Seen`, `\*`, "kw", `\`, "$Junk", `\\`, `\Recent`)
	DELIM := T("delim", `"/"`, "NIL", `""`, `"ab"`, "A", "\"\xc3\xa9\"", "\"\xff\"", `"\\"`)
	DATE := T("date-time", `"17-Jul-1996 02:44:25 -0700"`, `" 7-Jul-1996 02:44:25 -0700"`, `"bad"`, "NIL", `""`, "A")
	TEXT := T("resp-text", " done", "", " ", " [done")
	CAP := T("capability", "IMAP4rev1", "IMAP4rev2", "APPENDLIMIT=1", "APPENDLIMIT="+n32o, "APPENDLIMIT=", "AUTH=PLAIN", "LITERAL+", "QUOTA=RES-STORAGE", "THREAD=REFS", "APPENDLIMIT", "AUTH=")
	CAPS := N("capability-data", alt(" ", CAP), alt(""), alt(" ", CAP, " ", CAP), alt("  ", CAP), alt(" ", CAP, " "))

	VALUE := N("tagged-ext-val")
	VALUE.alts = [][]sym{alt(`"v"`), alt("(", VALUE, ")"), alt("A"), alt("NIL"), alt("()"), alt("(", VALUE, " ", VALUE, ")"), alt(lit1), alt(NUM), alt("(", VALUE), alt(")")}

	FLAGLIST := N("flag-list", alt("(", FLAG, ")"), alt("()"), alt("(", FLAG, " ", FLAG, ")"), alt("(", FLAG, FLAG, ")"), alt("NIL"), alt("(", FLAG), alt(FLAG))

	CODE := N("resp-text-code",
		alt(""), alt(" [ALERT]"), alt(" [CAPABILITY", CAPS, "]"), alt(" [PERMANENTFLAGS ", FLAGLIST, "]"),
		alt(" [UIDNEXT ", NUM, "]"), alt(" [UIDVALIDITY ", NUM, "]"), alt(" [COPYUID ", NUM, " ", SET, " ", SET, "]"),
		alt(" [HIGHESTMODSEQ ", NUM, "]"), alt(" [NOMODSEQ]"), alt(" [CLOSED]"), alt(" [APPENDUID ", NUM, " ", NUM, "]"),
		alt(" [READ-ONLY]"), alt(" [UNSEEN ", NUM, "]"), alt(" [BADCHARSET (A B)]"), alt(" [X-FOO ((( free text]"),
		alt(" [X-FOO"), alt(" []"), alt(" [ALERT] "), alt(" [UIDNEXT]"), alt(" [COPYUID ", NUM, " ", SET, "]"), alt(" [PERMANENTFLAGS]"),
		alt(" [capability", CAPS, "]"), alt(" [METADATA LONGENTRIES ", NUM, "]"))
	COND := T("resp-cond", "OK", "NO", "BAD", "BYE", "PREAUTH", "XX", "ok")
	TAG := T("tag", "T22", "T17", "T15", "T16", "T5", "T6", "T2", "T14", "T12", "T18", "T1", "T99", "t22")

	NSPREFIX := T("ns-prefix", `""`, `"#shared/"`, "NIL", "A", lit1)
	NSEXT := N("ns-ext", alt(""), alt(` "X-PARAM" ("a" "b")`), alt(" ", VALUE), alt(" "))
	NSDESC := N("ns-descr", alt("(", NSPREFIX, " ", DELIM, NSEXT, ")"), alt("()"), alt("(", NSPREFIX, ")"), alt("NIL"))
	NS := N("namespace", alt("NIL"), alt("(", NSDESC, ")"), alt("(", NSDESC, NSDESC, ")"), alt("(", NSDESC, " ", NSDESC, ")"), alt("()"), alt("A"))

	LISTEXT := N("mbox-list-extended", alt(""), alt(` ("CHILDINFO" ("SUBSCRIBED"))`), alt(` ("OLDNAME" (`, MBOX, `))`), alt(` ("X" `, VALUE, `)`),
		alt(` ("CHILDINFO" ("SUBSCRIBED") "OLDNAME" ("a"))`), alt(` ()`), alt(` ("CHILDINFO" `, VALUE, `)`), alt(" (CHILDINFO (A "+lit1+"))"), alt(` ("OLDNAME" `, VALUE, `)`), alt(` ("X")`), alt(" ", VALUE))
	MATTRS := N("mbx-list-flags", alt("()"), alt(`(\HasChildren)`), alt(`(\Noselect \Subscribed)`), alt("(", FLAG, ")"), alt("NIL"), alt("("))

	STATT := N("status-att", alt("MESSAGES ", NUM), alt("UIDNEXT ", NUM), alt("UIDVALIDITY ", NUM), alt("UNSEEN ", NUM), alt("DELETED ", NUM),
		alt("SIZE ", NUM), alt("APPENDLIMIT ", NUM), alt("APPENDLIMIT NIL"), alt("DELETED-STORAGE ", NUM), alt("HIGHESTMODSEQ ", NUM),
		alt("X-FOO ", VALUE), alt("messages ", NUM), alt("MESSAGES"), alt("APPENDLIMIT A"), alt("RECENT ", NUM))

	NSTRLIT := T("section-value", "{3}\r\nabc", `"abc"`, "NIL", "{0}\r\n", "~{3}\r\nabc", "A", "{4}\r\nabc", "{"+n64o+"}\r\nabc", "{"+n63+"}\r\nabc", "{3}abc", "{3+}\r\nabc", "{-1}\r\n", "{}\r\n", "nil", `""`)
	SECTION := T("section", "", "1", "1.2", "HEADER", "TEXT", "1.MIME", "HEADER.FIELDS (A B)", `HEADER.FIELDS.NOT ("a")`, "1.HEADER.FIELDS ({1}\r\na)",
		"1.", "MIME", "0", n32o, "HEADER.FIELDS ()", "HEADER.FIELDS", "1.TEXT", "header", "HEADER.FIELDS (A", ".")
	PARTIAL := N("partial", alt(""), alt("<", NUM, ">"), alt("<", NUM, ".", NUM, ">"), alt("<>"), alt("<"))
	BPART := T("section-binary", "1", "", "1.2", "1.", "0", n32o, "TEXT", ".")

	ADDR := N("address", alt("(", STR, " ", STR, " ", STR, " ", STR, ")"), alt(`(NIL NIL "grp" NIL)`), alt("(NIL NIL NIL NIL)"),
		alt(`("=?utf-8?q?=C3=A9?=" NIL "m" "h")`), alt("()"), alt(`("a" "b" "c")`), alt("NIL"), alt(`("a" "b" "c" "d" "e")`))
	ADDRS := N("address-list", alt("NIL"), alt("(", ADDR, ")"), alt("(", ADDR, ADDR, ")"), alt("(", ADDR, " ", ADDR, ")"), alt("()"), alt(ADDR))
	ENVDATE := T("env-date", `"Mon, 7 Feb 1994 21:52:25 -0800 (PST)"`, "NIL", `"garbage"`, "{1}\r\nx", `""`)
	ENVSUBJ := T("env-subject", `"subj"`, "NIL", `"=?utf-8?q?=C3=A9?="`, `"=?x?q?a?="`, `"=?utf-8?b?!!?="`, "{3}\r\na\r\n", `"=?utf-8?q?=?="`)
	INREPLY := T("env-in-reply-to", "NIL", `"<a@b>"`, `"<a@b> <c@d>"`, `"<"`, `"<>"`, `"a"`, `"<a@b"`, `"(c) <a@b>"`, `"<a@b>,"`, `"<\"a\"@[b]>"`)
	MSGID := T("env-message-id", `"<id@h>"`, "NIL", `"<>"`, `"x"`, `"<a"`, `""`, `"<a@b> <c@d>"`, `"<@>"`, `"<\"\"@[]>"`)
	ENV := N("envelope",
		alt("(", ENVDATE, " ", ENVSUBJ, " ", ADDRS, " ", ADDRS, " ", ADDRS, " ", ADDRS, " ", ADDRS, " ", ADDRS, " ", INREPLY, " ", MSGID, ")"),
		alt("NIL"), alt("()"), alt("(NIL NIL NIL NIL NIL NIL NIL NIL NIL)"), alt("(NIL NIL NIL NIL NIL NIL NIL NIL NIL NIL NIL)"), alt("(NIL NIL NIL NIL NIL NIL NIL NIL NIL NIL"))

	PARAMS := N("body-fld-param", alt("NIL"), alt(`("CHARSET" "UTF-8")`), alt(`("A")`), alt(`("NAME" "=?utf-8?q?x?=" "B" "c")`), alt("()"), alt("(", STR, " ", STR, ")"), alt(`("" "v")`), alt("A"))
	DSP := N("body-fld-dsp", alt("NIL"), alt(`("ATTACHMENT" `, PARAMS, `)`), alt(`("INLINE" NIL)`), alt("()"), alt(`("ATTACHMENT" ("FILENAME" "f.txt"))`), alt("(NIL NIL)"), alt(`("A")`), alt("A"))
	LANG := N("body-fld-lang", alt("NIL"), alt(`"EN"`), alt(`("EN" "FR")`), alt("()"), alt("(", STR, ")"), alt("A"))
	EXT1 := N("body-ext-1part", alt(""), alt(" ", STR), alt(" NIL ", DSP), alt(" NIL ", DSP, " ", LANG), alt(" NIL ", DSP, " ", LANG, " ", STR),
		alt(" NIL ", DSP, " ", LANG, " ", STR, " ", VALUE), alt(" NIL NIL NIL NIL ", VALUE, " ", VALUE), alt(" "))
	OCTETS := T("body-fld-octets", "1", "0", "-1", n32, n32o, "-2", "-", "NIL")
	BODY := N("body")
	BODY1 := N("body-type-1part",
		alt(`("TEXT" "PLAIN" `, PARAMS, ` NIL NIL "7BIT" `, OCTETS, " ", NUM, EXT1, ")"),
		alt(`("APPLICATION" "X" `, PARAMS, " ", STR, " ", STR, " ", STR, " ", OCTETS, EXT1, ")"),
		alt(`("MESSAGE" "RFC822" NIL NIL NIL "7BIT" `, OCTETS, " ", ENV, " ", BODY, " ", NUM, EXT1, ")"),
		alt(`("TEXT" "PLAIN" NIL NIL NIL "7BIT" 1)`),
		alt(`("MESSAGE" "GLOBAL" NIL NIL NIL "8BIT" 1 `, ENV, " ", BODY, " 1)"),
		alt(`("MESSAGE" "RFC822" NIL NIL NIL "7BIT" 1)`),
		alt(`("TEXT" `, STR, ` NIL NIL NIL NIL 1 1)`),
		alt(`("A" "B" NIL NIL NIL "7BIT" 1 NIL NIL NIL NIL "ext" ("ext"))`),
		alt(`("message" "rfc822" NIL NIL NIL "7BIT" 1 `+envDflt+` `, BODY, ` 1 NIL)`),
		alt(`("TEXT" "PLAIN" NIL NIL NIL "7BIT" 1 `, VALUE, ")"),
		alt(`(`, STR, ` "PLAIN" NIL NIL NIL "7BIT" 1 1)`))
	EXTM := N("body-ext-mpart", alt(""), alt(" ", PARAMS), alt(" ", PARAMS, " ", DSP), alt(" ", PARAMS, " ", DSP, " ", LANG), alt(" ", PARAMS, " ", DSP, " ", LANG, " ", STR),
		alt(" ", PARAMS, " ", DSP, " ", LANG, " ", STR, " ", VALUE), alt(" "))
	BODYM := N("body-type-mpart", alt("(", BODY, ` "MIXED"`, EXTM, ")"), alt("(", BODY, BODY, ` "ALTERNATIVE")`), alt("(", BODY, ")"), alt("(", BODY, " ", BODY, ` "MIXED")`),
		alt("(", BODY, " ", STR, ")"), alt(`( "MIXED")`), alt("((", BODY, ` "A") "B")`))
	BODY.alts = [][]sym{alt(BODY1), alt(BODYM), alt("()"), alt("NIL"), alt("("), alt(`("TEXT")`), alt(`"TEXT"`)}

	ATT := N("msg-att",
		alt("FLAGS ", FLAGLIST), alt("ENVELOPE ", ENV), alt("INTERNALDATE ", DATE), alt("RFC822.SIZE ", NUM), alt("UID ", NUM),
		alt("BODY ", BODY), alt("BODYSTRUCTURE ", BODY), alt("BODY[", SECTION, "]", PARTIAL, " ", NSTRLIT), alt("BINARY[", BPART, "] ", NSTRLIT),
		alt("BINARY.SIZE[", BPART, "] ", NUM), alt("MODSEQ (", NUM, ")"), alt("X-UNKNOWN 1"), alt("RFC822 ", NSTRLIT), alt("body[] ", NSTRLIT),
		alt("BODY.PEEK[] ", NSTRLIT), alt("BINARY.SIZE ", NUM), alt("BINARY ", NSTRLIT), alt("MODSEQ ", NUM), alt("UID"), alt("BODY["), alt("BODY[] "),
		alt("RFC822.HEADER ", NSTRLIT), alt("BODYSTRUCTURE[] ", NSTRLIT), alt("BINARY[", BPART, "]<", NUM, "> ", NSTRLIT))

	NUMS := N("nz-numbers", alt(" ", NUM), alt(""), alt(" ", NUM, " ", NUM), alt(" ", NUM, NUM), alt(" 2 1"), alt(" 1 1"), alt("  ", NUM))
	SMODSEQ := N("search-sort-mod-seq", alt(""), alt(" (MODSEQ ", NUM, ")"), alt(" (X 1)"), alt(" (MODSEQ)"), alt(" (modseq ", NUM, ")"), alt(" ("))
	CORR := N("search-correlator", alt(` (TAG "T5")`), alt(""), alt(` (TAG "T6")`), alt(" (TAG T5)"), alt(" (TAG {2}\r\nT5)"), alt(` (X "T5")`), alt(` (TAG "T99")`), alt(" (TAG NIL)"), alt(" ()"), alt(` (TAG "T5"`))
	UIDOPT := T("esearch-uid", "", " UID", " uid")
	EITEM := N("search-return-data", alt("ALL ", SET), alt("MIN ", NUM), alt("MAX ", NUM), alt("COUNT ", NUM), alt("MODSEQ ", NUM), alt("X-FOO ", VALUE),
		alt("PARTIAL (1:2 ", SET, ")"), alt("all ", SET), alt("ALL"), alt("ALL NIL"), alt("RELEVANCY (1 2)"))

	TL := N("thread-list")
	TL.alts = [][]sym{alt("(", NUM, ")"), alt("(", NUM, " ", NUM, ")"), alt("(", NUM, " ", TL, ")"), alt("(", NUM, " ", TL, TL, ")"), alt("(", TL, TL, ")"), alt("()"),
		alt("(", TL, " ", NUM, ")"), alt("NIL"), alt("(", NUM, "(", NUM, "))"), alt("(", TL, ")"), alt("(", NUM), alt(NUM)}
	THREADS := N("thread-data", alt(" ", TL), alt(""), alt(" ", TL, TL), alt(" ", TL, " ", TL))

	ENTRY := T("entry", "/private/comment", `"/shared/x"`, "{2}\r\n/a", "NIL", `""`, "(")
	MVAL := T("metadata-value", `"v"`, "NIL", "{1}\r\nv", "~{1}\r\nv", "A", "1", "()")
	MPAIRS := N("entry-values", alt(ENTRY, " ", MVAL), alt(ENTRY, " ", MVAL, " ", ENTRY, " ", MVAL), alt(ENTRY), alt(""), alt(ENTRY, MVAL))
	ENTRIES := N("entry-list", alt(ENTRY), alt(ENTRY, " ", ENTRY), alt(""), alt(ENTRY, " "))

	QRES := N("quota-resources", alt("STORAGE ", NUM, " ", NUM), alt(""), alt("STORAGE ", NUM, " ", NUM, " MESSAGE ", NUM, " ", NUM), alt("STORAGE ", NUM), alt(`"STORAGE" 1 2`), alt("STORAGE -1 1"))
	QROOT := T("quota-root", "r", `"r"`, `""`, "{1}\r\nr", "NIL", "other")
	QROOTS := N("quotaroots", alt(" ", QROOT), alt(""), alt(" ", QROOT, " ", QROOT), alt(" "))

	add := func(name string, seq []sym) { tops = append(tops, top{name, seq}) }
	// each alternative of nt n as a top-level production of its own (full budget inside it)
	each := func(name string, n *nt, pre, post []sym) {
		for i, a := range n.alts {
			add(fmt.Sprintf("%s/%s#%d", name, n.name, i), cat(pre, a, post))
		}
	}

	each("status", CODE, cat("* ", COND), cat(TEXT, "\r\n"))
	each("tagged", CODE, cat(TAG, " ", COND), cat(TEXT, "\r\n"))
	add("tagged-nospace", cat(TAG, "\r\n"))
	add("continue-req", cat("+", T("continue-text", " idling", "", " ", " [X] t"), "\r\n"))
	add("capability", cat("* CAPABILITY", CAPS, "\r\n"))
	add("enabled", cat("* ENABLED", CAPS, "\r\n"))
	add("namespace", cat("* NAMESPACE ", NS, " ", NS, " ", NS, "\r\n"))
	add("namespace-short", cat("* NAMESPACE ", NS, " ", NS, "\r\n"))
	add("flags", cat("* FLAGS ", FLAGLIST, "\r\n"))
	add("exists", cat("* ", NUM, " EXISTS\r\n"))
	add("recent", cat("* ", NUM, " RECENT\r\n"))
	add("expunge", cat("* ", NUM, " EXPUNGE\r\n"))
	add("number-other", cat("* ", NUM, " ", T("number-resp", "FETCH", "XUNKNOWN", "exists", "EXISTS 1", "FETCH ", "FETCH ()", "FETCH NIL"), "\r\n"))
	add("list", cat("* LIST ", MATTRS, " ", DELIM, " ", MBOX, LISTEXT, "\r\n"))
	add("lsub", cat("* LSUB () \"/\" INBOX\r\n"))
	each("status-data", STATT, cat("* STATUS ", MBOX, " ("), cat(")\r\n"))
	add("status-data-2", cat("* STATUS ", MBOX, " (", STATT, " ", STATT, ")\r\n"))
	add("status-data-0", cat("* STATUS ", MBOX, " ", T("status-att-list", "()", "", "NIL", "(", "(MESSAGES 1"), "\r\n"))
	each("fetch", ATT, cat("* ", NUM, " FETCH ("), cat(")\r\n"))
	add("fetch-2", cat("* ", NUM, " FETCH (", ATT, " ", ATT, ")\r\n"))
	add("fetch-uid-first", cat("* ", NUM, " FETCH (UID ", NUM, " ", ATT, ")\r\n"))
	add("fetch-nosep", cat("* ", NUM, " FETCH (", ATT, ATT, ")\r\n"))
	add("search", cat("* SEARCH", NUMS, SMODSEQ, "\r\n"))
	add("sort", cat("* SORT", NUMS, "\r\n"))
	each("esearch", EITEM, cat("* ESEARCH", CORR, UIDOPT, " "), cat("\r\n"))
	add("esearch-2", cat("* ESEARCH", CORR, UIDOPT, " ", EITEM, " ", EITEM, "\r\n"))
	add("esearch-0", cat("* ESEARCH", CORR, UIDOPT, T("esearch-tail", "", " ", " ALL 1 ", " ALL 1 MIN"), "\r\n"))
	add("thread", cat("* THREAD", THREADS, "\r\n"))
	add("metadata-values", cat("* METADATA ", MBOX, " (", MPAIRS, ")\r\n"))
	add("metadata-list", cat("* METADATA ", MBOX, " ", ENTRIES, "\r\n"))
	add("quota", cat("* QUOTA ", QROOT, " (", QRES, ")\r\n"))
	add("quotaroot", cat("* QUOTAROOT ", MBOX, QROOTS, "\r\n"))
	add("unknown", cat(T("misc", "* XUNKNOWN foo\r\n", "* \r\n", "\r\n", "* 1\r\n", "* 1 \r\n", "T22\r\n", "T22 \r\n", "*\r\n", " \r\n", "* OK\r\n", "* OK \r\n", "T22 OK\r\n", "* BYE [", "(\r\n")))

	for _, n := range allNTs {
		productions += len(n.alts)
	}
	productions += len(tops)
	return tops, productions
}

// derivations of one top-level production with budget k
func derive(t top, k int, emit func(s []byte)) {
	expandSeq(t.seq, k, make([]byte, 0, 256), func(p []byte, left int) { emit(p) })
}

// ---- tokens (for (ii)) ----

func isDigit(c byte) bool { return c >= '0' && c <= '9' }

// lex splits a response into tokens: SP, CRLF, specials, quoted strings, literals (with their
// payload), atoms.
func lex(s string) []string {
	var toks []string
	for i := 0; i < len(s); {
		c := s[i]
		switch {
		case c == '\r' && i+1 < len(s) && s[i+1] == '\n':
			toks = append(toks, "\r\n")
			i += 2
		case c == ' ' || c == '\r' || c == '\n' || strings.IndexByte("()[]<>", c) >= 0:
			toks = append(toks, s[i:i+1])
			i++
		case c == '"':
			j := i + 1
			for j < len(s) && s[j] != '"' {
				if s[j] == '\\' {
					j++
				}
				j++
			}
			if j >= len(s) {
				j = len(s) - 1
			}
			toks = append(toks, s[i:j+1])
			i = j + 1
		case c == '{' || (c == '~' && i+1 < len(s) && s[i+1] == '{'):
			j := i
			if c == '~' {
				j++
			}
			j++
			k := j
			n := 0
			for k < len(s) && isDigit(s[k]) && k-j < 6 {
				n = n*10 + int(s[k]-'0')
				k++
			}
			if k > j && k+2 < len(s)+1 && strings.HasPrefix(s[k:], "}\r\n") {
				end := k + 3 + n
				if end > len(s) {
					end = len(s)
				}
				toks = append(toks, s[i:end])
				i = end
			} else {
				toks = append(toks, s[i:i+1])
				i++
			}
		default:
			j := i
			for j < len(s) && strings.IndexByte(" \r\n()[]<>\"{", s[j]) < 0 {
				j++
			}
			if j == i {
				j = i + 1
			}
			toks = append(toks, s[i:j])
			i = j
		}
	}
	return toks
}

func tokClass(t string) string {
	switch {
	case t == " ":
		return "SP"
	case t == "\r\n":
		return "CRLF"
	case len(t) == 1 && strings.IndexByte("()[]<>", t[0]) >= 0:
		return t
	case t[0] == '"':
		return "quoted"
	case t[0] == '{':
		return "literal"
	case strings.HasPrefix(t, "~{"):
		return "literal8"
	case t == "NIL":
		return "NIL"
	case t == "*":
		return "star"
	case t == "$":
		return "dollar"
	case t == "0":
		return "zero"
	}
	allDigits, setLike := true, true
	for i := 0; i < len(t); i++ {
		if !isDigit(t[i]) {
			allDigits = false
			if strings.IndexByte(":,*", t[i]) < 0 {
				setLike = false
			}
		}
	}
	switch {
	case allDigits && len(t) >= 10:
		return "bignum"
	case allDigits:
		return "number"
	case setLike:
		return "set"
	case t[0] == '\\':
		return "flag"
	}
	return "atom"
}

// one representative per token class, for "swap with every other class"
var classReps = []string{" ", "\r\n", "(", ")", "[", "]", "<", ">", `"q"`, "{1}\r\nx", "~{1}\r\nx", "NIL", "*", "$", "0", "1", n32o, "1:*", `\Seen`, "A", "+"}

// tokenMutations: delete / duplicate / replace by the representative of every other class, for every token
func tokenMutations(s string, emit func(m string)) {
	toks := lex(s)
	var b strings.Builder
	join := func(i int, repl []string) {
		b.Reset()
		for j, t := range toks {
			if j == i {
				for _, r := range repl {
					b.WriteString(r)
				}
			} else {
				b.WriteString(t)
			}
		}
		emit(b.String())
	}
	for i, t := range toks {
		join(i, nil)
		join(i, []string{t, t})
		cls := tokClass(t)
		for _, r := range classReps {
			if tokClass(r) != cls {
				join(i, []string{r})
			}
		}
	}
}

// ---- (iii) base responses for byte-level mutation ----

var baseResponses = []string{
	"* OK [CAPABILITY IMAP4rev1 LITERAL+ SASL-IR LOGIN-REFERRALS ID ENABLE IDLE AUTH=PLAIN] Dovecot ready.\r\n",
	"* PREAUTH [CAPABILITY IMAP4rev2 APPENDLIMIT=35651584] hi\r\n",
	"* BYE [ALERT] Autologout; idle for too long\r\n",
	"* NO [OVERQUOTA] Soft quota has been exceeded\r\n",
	"* BAD Command line too long\r\n",
	"* OK [PERMANENTFLAGS (\\Answered \\Flagged \\Deleted \\Seen \\Draft \\*)] Flags permitted.\r\n",
	"* OK [UIDVALIDITY 3857529045] UIDs valid\r\n",
	"* OK [UIDNEXT 4392] Predicted next UID\r\n",
	"* OK [HIGHESTMODSEQ 715194045007] Highest\r\n",
	"* OK [NOMODSEQ] Sorry\r\n",
	"* OK [CLOSED] Previous mailbox closed.\r\n",
	"* OK [COPYUID 38505 304,319:320 3956:3958] Done\r\n",
	"* OK [UNSEEN 12] Message 12 is first unseen\r\n",
	"* OK Still here\r\n",
	"T22 OK NOOP completed\r\n",
	"T22 NO [CANNOT] nope\r\n",
	"T22 BAD [CLIENTBUG] bad\r\n",
	"T17 OK [APPENDUID 38505 3955] APPEND completed\r\n",
	"T15 OK [COPYUID 38505 304,319:320 3956:3958] Done\r\n",
	"T20 OK [CAPABILITY IMAP4rev1 UIDPLUS] done\r\n",
	"T14 OK [READ-WRITE] SELECT completed\r\n",
	"T5 OK SEARCH completed (0.001 + 0.000 secs).\r\n",
	"+ Ready for literal data\r\n",
	"+ \r\n",
	"* CAPABILITY IMAP4rev1 STARTTLS AUTH=GSSAPI LOGINDISABLED QUOTA=RES-STORAGE THREAD=REFERENCES APPENDLIMIT=1000\r\n",
	"* ENABLED UTF8=ACCEPT METADATA\r\n",
	"* NAMESPACE ((\"\" \"/\")) ((\"~\" \"/\")) ((\"#shared/\" \"/\")(\"#public/\" \"/\" \"X-PARAM\" (\"FLAG1\" \"FLAG2\")))\r\n",
	"* NAMESPACE ((\"\" \".\")) NIL NIL\r\n",
	"* FLAGS (\\Answered \\Flagged \\Deleted \\Seen \\Draft $Forwarded)\r\n",
	"* 172 EXISTS\r\n",
	"* 1 RECENT\r\n",
	"* 3 EXPUNGE\r\n",
	"* LIST (\\HasNoChildren \\Sent) \"/\" \"Sent Items\"\r\n",
	"* LIST (\\Noselect) NIL INBOX\r\n",
	"* LIST () \"/\" {6}\r\nDra&-t\r\n",
	"* LIST (\\Subscribed) \"/\" \"foo\" (\"CHILDINFO\" (\"SUBSCRIBED\"))\r\n",
	"* LIST () \"/\" \"new\" (\"OLDNAME\" (\"old\"))\r\n",
	"* LIST () \"/\" \"R&AOk-sum&AOk-\"\r\n",
	"* LIST () \"/\" INBOX\r\n* STATUS INBOX (MESSAGES 17 UIDNEXT 18)\r\n",
	"* STATUS INBOX (MESSAGES 231 UIDNEXT 44292 UIDVALIDITY 1 UNSEEN 3 DELETED 0 SIZE 4294967297)\r\n",
	"* STATUS \"blurdybloop\" (APPENDLIMIT NIL DELETED-STORAGE 12 HIGHESTMODSEQ 7011231777)\r\n",
	"* STATUS INBOX (APPENDLIMIT 257890 X-GUID \"abc\")\r\n",
	"* 12 FETCH (FLAGS (\\Seen) UID 4827313 INTERNALDATE \"17-Jul-1996 02:44:25 -0700\" RFC822.SIZE 4286 MODSEQ (12121231000))\r\n",
	"* 12 FETCH (ENVELOPE (\"Wed, 17 Jul 1996 02:23:25 -0700 (PDT)\" \"IMAP4rev1 WG mtg summary and minutes\" ((\"Terry Gray\" NIL \"gray\" \"cac.washington.edu\")) ((\"Terry Gray\" NIL \"gray\" \"cac.washington.edu\")) ((\"Terry Gray\" NIL \"gray\" \"cac.washington.edu\")) ((NIL NIL \"imap\" \"cac.washington.edu\")) ((NIL NIL \"minutes\" \"CNRI.Reston.VA.US\")(\"John Klensin\" NIL \"KLENSIN\" \"MIT.EDU\")) NIL NIL \"<B27397-0100000@cac.washington.edu>\"))\r\n",
	"* 1 FETCH (ENVELOPE (NIL \"=?UTF-8?Q?caf=C3=A9?=\" ((NIL NIL \"grp\" NIL)(NIL NIL \"a\" \"b\")(NIL NIL NIL NIL)) NIL NIL NIL NIL NIL \"<a@b> <c@d>\" \"<e@f>\"))\r\n",
	"* 12 FETCH (BODY (\"TEXT\" \"PLAIN\" (\"CHARSET\" \"US-ASCII\") NIL NIL \"7BIT\" 3028 92))\r\n",
	"* 12 FETCH (BODYSTRUCTURE (\"TEXT\" \"PLAIN\" (\"CHARSET\" \"US-ASCII\") NIL NIL \"7BIT\" 3028 92 NIL (\"INLINE\" (\"FILENAME\" \"a.txt\")) (\"EN\" \"FR\") \"loc\" \"ext\"))\r\n",
	"* 1 FETCH (BODYSTRUCTURE ((\"TEXT\" \"PLAIN\" (\"CHARSET\" \"UTF-8\") NIL NIL \"7BIT\" 12 1 NIL NIL NIL NIL)(\"TEXT\" \"HTML\" (\"CHARSET\" \"UTF-8\") NIL NIL \"QUOTED-PRINTABLE\" 50 2 NIL NIL NIL NIL) \"ALTERNATIVE\" (\"BOUNDARY\" \"b1\") NIL NIL NIL))\r\n",
	"* 2 FETCH (BODYSTRUCTURE (\"MESSAGE\" \"RFC822\" NIL NIL NIL \"7BIT\" 342 (NIL \"s\" NIL NIL NIL NIL NIL NIL NIL NIL) (\"TEXT\" \"PLAIN\" NIL NIL NIL \"7BIT\" 10 1) 9 NIL NIL NIL NIL))\r\n",
	"* 2 FETCH (BODYSTRUCTURE ((\"TEXT\" \"PLAIN\" NIL NIL NIL \"7BIT\" -1 1)((\"IMAGE\" \"PNG\" (\"NAME\" \"x.png\") \"<id>\" \"d\" \"BASE64\" 100 \"md5\" (\"ATTACHMENT\" NIL) NIL \"loc\") \"RELATED\") \"MIXED\"))\r\n",
	"* 1 FETCH (BODY[] {11}\r\nhello world)\r\n",
	"* 1 FETCH (UID 7 BODY[HEADER.FIELDS (FROM TO)] {11}\r\nFrom: a\r\n\r\n FLAGS (\\Seen))\r\n",
	"* 1 FETCH (BODY[1.2.TEXT]<0> \"abc\")\r\n",
	"* 1 FETCH (BODY[HEADER.FIELDS.NOT (\"X\" {1}\r\nY)] NIL)\r\n",
	"* 1 FETCH (BODY[] NIL)\r\n",
	"* 1 FETCH (BODY[1.MIME] \"\")\r\n",
	"* 1 FETCH (BINARY[1] ~{3}\r\na\x00b)\r\n",
	"* 1 FETCH (BINARY[1.2] NIL BINARY.SIZE[1] 3)\r\n",
	"* 1 FETCH (BINARY.SIZE[1] 3)\r\n",
	"* 1 FETCH (UID 1 BODY[] {3}\r\nabc BODY[TEXT] {1}\r\nx)\r\n* 2 FETCH (UID 2 BODY[] {0}\r\n)\r\n",
	"* 4294967295 FETCH (UID 4294967295 RFC822.SIZE 9223372036854775807 MODSEQ (18446744073709551615))\r\n",
	"* 1 FETCH (FLAGS ())\r\n* 1 FETCH (FLAGS (\\Deleted))\r\n",
	"* SEARCH 2 84 882\r\n",
	"* SEARCH 2 5 (MODSEQ 917162500)\r\n",
	"* SEARCH\r\n",
	"* ESEARCH (TAG \"T5\") UID MIN 7 MAX 3800 COUNT 15 ALL 7,9:20,3800\r\n",
	"* ESEARCH (TAG \"T6\") ALL 1:3,5 MODSEQ 1236\r\n",
	"* ESEARCH UID COUNT 0\r\n",
	"* ESEARCH (TAG \"T5\") PARTIAL (1:100 200:250,252:300) X-EXT (a (b c))\r\n",
	"* SORT 2 3 6 1\r\n",
	"* THREAD (2)(3 6 (4 23)(44 7 96))\r\n",
	"* THREAD ((3)(5))\r\n",
	"* THREAD\r\n",
	"* METADATA \"INBOX\" (/private/comment \"My own comment\" /shared/comment NIL)\r\n",
	"* METADATA INBOX (/private/comment {2}\r\nhi)\r\n",
	"* METADATA \"\" /shared/comment /private/comment\r\n",
	"* QUOTA \"r\" (STORAGE 10 512 MESSAGE 1 100)\r\n",
	"* QUOTA \"\" ()\r\n",
	"* QUOTAROOT INBOX \"r\" \"\"\r\n",
	"* QUOTAROOT comp.mail.mime\r\n",
	"* 1 FETCH (X-GM-MSGID 1278455344230334865)\r\n",
	"* ID NIL\r\n",
}

// bytes tried at every position: one per comparison in the decoder / parsers
var quickBytes = []byte{0, '\r', '\n', ' ', '"', '\\', '(', ')', '[', ']', '{', '}', '*', '%', '+', '~', '$', '0', '1', '9', ':', ',', '.', '<', '>', 'A', 'a', 'N', '-', '=', '?', '&', 0x7f, 0x80, 0xff}

// quick tier: replacements / insertions
var quickReplace = []byte{0, '\r', '\n', ' ', '"', '\\', '(', ')', '[', ']', '{', '}', '*', '+', '~', '$', '0', '1', '9', ':', ',', '.', '<', 'A', 'N', '-', 0x80}
var quickInsert = []byte{' ', '\r', '(', ')', '"', '{', '0', '-', 'A'}

func isQuickByte(v byte) bool {
	for _, q := range quickBytes {
		if q == v {
			return true
		}
	}
	return false
}

// byteMutations: emit(m, structural) — structural is false for replacement values that are not
// one of the bytes the parsers compare against (those run under the two basic variants only).
func byteMutations(s string, thorough bool, emit func(m []byte, structural bool)) {
	b := []byte(s)
	// truncations
	for i := 0; i < len(b); i++ {
		emit(b[:i], true)
	}
	repl, ins := quickReplace, quickInsert
	if thorough {
		repl = make([]byte, 256)
		for i := range repl {
			repl[i] = byte(i)
		}
		ins = quickBytes
	}
	buf := make([]byte, 0, len(b)+1)
	for i := 0; i < len(b); i++ {
		// deletion
		buf = append(append(buf[:0], b[:i]...), b[i+1:]...)
		emit(buf, true)
		for _, v := range repl {
			if v != b[i] {
				buf = append(buf[:0], b...)
				buf[i] = v
				emit(buf, isQuickByte(v))
			}
		}
		// insertion before position i
		for _, v := range ins {
			buf = append(append(append(buf[:0], b[:i]...), v), b[i:]...)
			emit(buf, true)
		}
	}
}

// ---- (iv) raw strings ----

var rawAlphabet = []string{" ", "\r", "\n", "(", ")", "[", "]", "{", "}", "\"", "\\", "*", "0", "1", "A", "+"}

func rawStrings(maxLen int, emit func(s string)) {
	var rec func(p string, left int)
	rec = func(p string, left int) {
		emit(p)
		if left == 0 {
			return
		}
		for _, a := range rawAlphabet {
			rec(p+a, left-1)
		}
	}
	rec("", maxLen)
}

// ---- (v) growth families ----

type growth struct {
	name      string // family
	prod      string // production named in the violation key
	recursive bool   // "(" x n in a recursive production: also probed at the largest n in the quick tier
	gen       func(n int) []byte
}

func rep(s string, n int) string { return strings.Repeat(s, n) }

func numsList(n int, step, start int, sep string) string {
	var b strings.Builder
	for i := 0; i < n; i++ {
		if i > 0 {
			b.WriteString(sep)
		}
		fmt.Fprint(&b, start+i*step)
	}
	return b.String()
}

func distinctList(prefix string, n int) string {
	var b strings.Builder
	for i := 0; i < n; i++ {
		if i > 0 {
			b.WriteByte(' ')
		}
		fmt.Fprintf(&b, "%s%d", prefix, i)
	}
	return b.String()
}

func growthFamilies() []growth {
	g := func(name, prod string, recursive bool, gen func(n int) string) growth {
		return growth{name, prod, recursive, func(n int) []byte { return []byte(gen(n)) }}
	}
	leaf := `("TEXT" "PLAIN" NIL NIL NIL "7BIT" 1 1)`
	return []growth{
		// "(" x n in each recursive production
		g("bodystructure-open", "bodystructure", true, func(n int) string { return "* 1 FETCH (BODYSTRUCTURE " + rep("(", n) }),
		g("bodystructure-nested", "bodystructure", true, func(n int) string {
			return "* 1 FETCH (BODYSTRUCTURE " + rep("(", n) + leaf + rep(` "MIXED")`, n) + ")\r\n"
		}),
		g("bodystructure-rfc822-nested", "bodystructure", true, func(n int) string {
			return "* 1 FETCH (BODYSTRUCTURE " + rep(`("MESSAGE" "RFC822" NIL NIL NIL "7BIT" 1 (NIL NIL NIL NIL NIL NIL NIL NIL NIL NIL) `, n) + leaf + rep(" 1)", n) + ")\r\n"
		}),
		g("body-ext-open", "body-extension", true, func(n int) string {
			return `* 1 FETCH (BODYSTRUCTURE ("A" "B" NIL NIL NIL "7BIT" 1 NIL NIL NIL NIL ` + rep("(", n)
		}),
		g("body-ext-nested", "body-extension", true, func(n int) string {
			return `* 1 FETCH (BODYSTRUCTURE ("A" "B" NIL NIL NIL "7BIT" 1 NIL NIL NIL NIL ` + rep("(", n) + "A" + rep(")", n) + "))\r\n"
		}),
		g("thread-open", "thread", true, func(n int) string { return "* THREAD " + rep("(", n) }),
		g("thread-nested", "thread", true, func(n int) string { return "* THREAD " + rep("(", n) + "1" + rep(")", n) + "\r\n" }),
		g("thread-chain-nested", "thread", true, func(n int) string { return "* THREAD " + rep("(1 ", n) + "(2)" + rep(")", n) + "\r\n" }),
		g("esearch-ext-open", "esearch-unknown-item", true, func(n int) string { return "* ESEARCH (TAG \"T5\") X-FOO " + rep("(", n) }),
		g("esearch-ext-nested", "esearch-unknown-item", true, func(n int) string {
			return "* ESEARCH (TAG \"T5\") X-FOO " + rep("(", n) + "A" + rep(")", n) + "\r\n"
		}),
		g("list-ext-open", "list-extended-item", true, func(n int) string { return `* LIST () "/" INBOX ("X" ` + rep("(", n) }),
		g("list-ext-nested", "list-extended-item", true, func(n int) string {
			return `* LIST () "/" INBOX ("X" ` + rep("(", n) + "A" + rep(")", n) + ")\r\n"
		}),
		g("status-ext-nested", "status-unknown-item", true, func(n int) string {
			return "* STATUS INBOX (X-FOO " + rep("(", n) + "A" + rep(")", n) + ")\r\n"
		}),
		g("namespace-ext-nested", "namespace-extension", true, func(n int) string {
			return `* NAMESPACE (("" "/" "X" ` + rep("(", n) + "A" + rep(")", n) + ")) NIL NIL\r\n"
		}),
		g("resp-code-open", "resp-text-code", true, func(n int) string { return "* OK [X-FOO " + rep("(", n) + "] done\r\n" }),
		g("tagged-resp-code-open", "resp-text-code", true, func(n int) string { return "T22 OK [X-FOO " + rep("(", n) + "] done\r\n" }),
		// n-element lists
		g("flags-list", "flag-list", false, func(n int) string { return "* FLAGS (" + strings.TrimSuffix(rep("kw ", n), " ") + ")\r\n" }),
		g("fetch-flags-list", "flag-list", false, func(n int) string { return "* 1 FETCH (FLAGS (" + strings.TrimSuffix(rep("kw ", n), " ") + "))\r\n" }),
		// pairwise distinct elements (a per-element scan of what was read so far only costs when they differ)
		g("flags-list-distinct", "flag-list", false, func(n int) string { return "* FLAGS (" + distinctList("kw", n) + ")\r\n" }),
		g("fetch-flags-distinct", "flag-list", false, func(n int) string { return "* 1 FETCH (FLAGS (" + distinctList("kw", n) + "))\r\n" }),
		g("permanentflags-distinct", "flag-list", false, func(n int) string {
			return "* OK [PERMANENTFLAGS (" + distinctList("kw", n) + ")] ok\r\n"
		}),
		g("fetch-header-fields-distinct", "header-list", false, func(n int) string {
			return "* 1 FETCH (BODY[HEADER.FIELDS (" + distinctList("H", n) + ")] \"x\")\r\n"
		}),
		g("body-params-distinct", "body-fld-param", false, func(n int) string {
			var b strings.Builder
			for i := 0; i < n; i++ {
				fmt.Fprintf(&b, `"k%d" "v" `, i)
			}
			return `* 1 FETCH (BODYSTRUCTURE ("TEXT" "PLAIN" (` + strings.TrimSuffix(b.String(), " ") + `) NIL NIL "7BIT" 1 1))` + "\r\n"
		}),
		g("metadata-entries-distinct", "metadata", false, func(n int) string {
			var b strings.Builder
			for i := 0; i < n; i++ {
				fmt.Fprintf(&b, `/a%d "v" `, i)
			}
			return "* METADATA INBOX (" + strings.TrimSuffix(b.String(), " ") + ")\r\n"
		}),
		g("fetch-atts", "msg-att", false, func(n int) string { return "* 1 FETCH (" + strings.TrimSuffix(rep("UID 1 ", n), " ") + ")\r\n" }),
		g("fetch-responses", "fetch", false, func(n int) string { return rep("* 1 FETCH (UID 1)\r\n", n) }),
		g("fetch-section-parts", "section", false, func(n int) string { return "* 1 FETCH (BODY[" + strings.TrimSuffix(rep("1.", n), ".") + "] \"x\")\r\n" }),
		g("fetch-header-fields", "header-list", false, func(n int) string {
			return "* 1 FETCH (BODY[HEADER.FIELDS (" + strings.TrimSuffix(rep("A ", n), " ") + ")] \"x\")\r\n"
		}),
		g("envelope-addresses", "address-list", false, func(n int) string {
			return "* 1 FETCH (ENVELOPE (NIL NIL (" + rep(`("n" NIL "m" "h")`, n) + ") NIL NIL NIL NIL NIL NIL NIL))\r\n"
		}),
		g("envelope-in-reply-to", "envelope", false, func(n int) string {
			return "* 1 FETCH (ENVELOPE (NIL NIL NIL NIL NIL NIL NIL NIL \"" + strings.TrimSuffix(rep("<a@b> ", n), " ") + "\" NIL))\r\n"
		}),
		g("body-mpart-children", "body-type-mpart", false, func(n int) string { return "* 1 FETCH (BODYSTRUCTURE (" + rep(leaf, n) + ` "MIXED"))` + "\r\n" }),
		g("body-params", "body-fld-param", false, func(n int) string {
			return `* 1 FETCH (BODYSTRUCTURE ("TEXT" "PLAIN" (` + strings.TrimSuffix(rep(`"k" "v" `, n), " ") + `) NIL NIL "7BIT" 1 1))` + "\r\n"
		}),
		g("body-langs", "body-fld-lang", false, func(n int) string {
			return `* 1 FETCH (BODYSTRUCTURE ("A" "B" NIL NIL NIL "7BIT" 1 NIL NIL (` + strings.TrimSuffix(rep(`"EN" `, n), " ") + `)))` + "\r\n"
		}),
		g("capabilities", "capability-data", false, func(n int) string { return "* CAPABILITY" + rep(" X", n) + "\r\n" }),
		g("capabilities-distinct", "capability-data", false, func(n int) string {
			var b strings.Builder
			b.WriteString("* CAPABILITY")
			for i := 0; i < n; i++ {
				fmt.Fprintf(&b, " X%d", i)
			}
			return b.String() + "\r\n"
		}),
		g("list-responses", "list", false, func(n int) string { return rep("* LIST () \"/\" INBOX\r\n", n) }),
		g("list-ext-items", "list-extended-item", false, func(n int) string {
			return `* LIST () "/" INBOX (` + strings.TrimSuffix(rep(`"X" "v" `, n), " ") + ")\r\n"
		}),
		g("list-childinfo", "list-extended-item", false, func(n int) string {
			return `* LIST () "/" INBOX ("CHILDINFO" (` + strings.TrimSuffix(rep(`"SUBSCRIBED" `, n), " ") + "))\r\n"
		}),
		g("status-items", "status-att", false, func(n int) string {
			return "* STATUS INBOX (" + strings.TrimSuffix(rep("MESSAGES 1 ", n), " ") + ")\r\n"
		}),
		g("search-ascending", "search", false, func(n int) string { return "* SEARCH " + numsList(n, 2, 1, " ") + "\r\n" }),
		g("search-descending", "search", false, func(n int) string { return "* SEARCH " + numsList(n, -2, 2*n+1, " ") + "\r\n" }),
		g("search-adjacent", "search", false, func(n int) string { return "* SEARCH " + numsList(n, 1, 1, " ") + "\r\n" }),
		g("sort-numbers", "sort", false, func(n int) string { return "* SORT " + numsList(n, 1, 1, " ") + "\r\n" }),
		g("thread-flat", "thread", false, func(n int) string { return "* THREAD (" + numsList(n, 1, 1, " ") + ")\r\n" }),
		g("thread-siblings", "thread", false, func(n int) string { return "* THREAD " + rep("(1)", n) + "\r\n" }),
		g("thread-subthreads", "thread", false, func(n int) string { return "* THREAD (1 " + rep("(2)", n) + ")\r\n" }),
		g("expunge-responses", "expunge", false, func(n int) string { return rep("* 1 EXPUNGE\r\n", n) }),
		g("exists-responses", "exists", false, func(n int) string { return rep("* 1 EXISTS\r\n", n) }),
		g("quota-resources", "quota", false, func(n int) string { return "* QUOTA r (" + strings.TrimSuffix(rep("STORAGE 1 2 ", n), " ") + ")\r\n" }),
		g("quotaroot-roots", "quotaroot", false, func(n int) string { return "* QUOTAROOT INBOX" + rep(" r", n) + "\r\n" }),
		g("metadata-entries", "metadata", false, func(n int) string {
			return "* METADATA INBOX (" + strings.TrimSuffix(rep(`/a "v" `, n), " ") + ")\r\n"
		}),
		g("metadata-entry-list", "metadata", false, func(n int) string { return "* METADATA INBOX" + rep(" /a", n) + "\r\n" }),
		g("namespace-descrs", "namespace", false, func(n int) string { return "* NAMESPACE (" + rep(`("" "/")`, n) + ") NIL NIL\r\n" }),
		g("permanentflags-list", "flag-list", false, func(n int) string {
			return "* OK [PERMANENTFLAGS (" + strings.TrimSuffix(rep("kw ", n), " ") + ")] ok\r\n"
		}),
		g("continuation-requests", "continue-req", false, func(n int) string { return rep("+ x\r\n", n) }),
		// n ranges in a set
		g("esearch-set-ascending", "sequence-set", false, func(n int) string { return "* ESEARCH (TAG \"T5\") ALL " + numsList(n, 2, 1, ",") + "\r\n" }),
		g("esearch-set-descending", "sequence-set", false, func(n int) string {
			return "* ESEARCH (TAG \"T5\") ALL " + numsList(n, -2, 2*n+1, ",") + "\r\n"
		}),
		g("esearch-set-ranges", "sequence-set", false, func(n int) string {
			var b strings.Builder
			b.WriteString("* ESEARCH (TAG \"T6\") UID ALL ")
			for i := 0; i < n; i++ {
				if i > 0 {
					b.WriteByte(',')
				}
				fmt.Fprintf(&b, "%d:%d", 4*i+1, 4*i+2)
			}
			return b.String() + "\r\n"
		}),
		g("esearch-set-overlapping", "sequence-set", false, func(n int) string {
			var b strings.Builder
			b.WriteString("* ESEARCH (TAG \"T5\") ALL ")
			for i := 0; i < n; i++ {
				if i > 0 {
					b.WriteByte(',')
				}
				fmt.Fprintf(&b, "%d:%d", i+1, i+3)
			}
			return b.String() + "\r\n"
		}),
		g("copyuid-set", "sequence-set", false, func(n int) string {
			s := numsList(n, 2, 1, ",")
			return "T15 OK [COPYUID 1 " + s + " " + s + "] done\r\n"
		}),
		// n-digit numbers
		g("number-digits-exists", "number", false, func(n int) string { return "* " + rep("7", n) + " EXISTS\r\n" }),
		g("number-digits-search", "number", false, func(n int) string { return "* SEARCH " + rep("7", n) + "\r\n" }),
		g("number-digits-literal", "literal", false, func(n int) string { return "* 1 FETCH (BODY[] {" + rep("7", n) + "}\r\n" }),
		g("number-digits-size", "number", false, func(n int) string { return "* 1 FETCH (RFC822.SIZE " + rep("7", n) + ")\r\n" }),
		g("number-zeros-uid", "number", false, func(n int) string { return "* 1 FETCH (UID " + rep("0", n) + "1)\r\n" }),
		g("number-digits-set", "sequence-set", false, func(n int) string { return "* ESEARCH ALL " + rep("7", n) + "\r\n" }),
		// n-byte atoms / strings / literals
		g("atom-type", "atom", false, func(n int) string { return "* " + rep("A", n) + "\r\n" }),
		g("atom-tag", "atom", false, func(n int) string { return rep("A", n) + " OK x\r\n" }),
		g("atom-flag", "atom", false, func(n int) string { return "* FLAGS (" + rep("k", n) + ")\r\n" }),
		g("atom-capability", "atom", false, func(n int) string { return "* CAPABILITY " + rep("X", n) + "\r\n" }),
		g("atom-msg-att", "atom", false, func(n int) string { return "* 1 FETCH (" + rep("X", n) + " 1)\r\n" }),
		g("atom-mailbox-utf7", "mailbox", false, func(n int) string { return `* LIST () "/" ` + rep("&AOk-", n/5+1) + "\r\n" }),
		g("text", "resp-text", false, func(n int) string { return "* OK " + rep("x", n) + "\r\n" }),
		g("quoted", "quoted", false, func(n int) string { return `* LIST () "/" "` + rep("x", n) + "\"\r\n" }),
		g("quoted-escapes", "quoted", false, func(n int) string { return `* LIST () "/" "` + rep(`\"`, n/2) + "\"\r\n" }),
		g("quoted-subject-encoded-words", "envelope", false, func(n int) string {
			return "* 1 FETCH (ENVELOPE (NIL \"" + strings.TrimSuffix(rep("=?utf-8?q?x?= ", n/14+1), " ") + "\" NIL NIL NIL NIL NIL NIL NIL NIL))\r\n"
		}),
		g("literal-body", "literal", false, func(n int) string { return fmt.Sprintf("* 1 FETCH (BODY[] {%d}\r\n%s)\r\n", n, rep("x", n)) }),
		g("literal-nstring", "literal", false, func(n int) string {
			return fmt.Sprintf("* 1 FETCH (ENVELOPE (NIL {%d}\r\n%s NIL NIL NIL NIL NIL NIL NIL NIL))\r\n", n, rep("x", n))
		}),
		g("literal-mailbox", "literal", false, func(n int) string { return fmt.Sprintf("* LIST () \"/\" {%d}\r\n%s\r\n", n, rep("x", n)) }),
		g("resp-code-text", "resp-text-code", false, func(n int) string { return "* OK [X-FOO " + rep("x", n) + "] done\r\n" }),
		g("spaces", "sp", false, func(n int) string { return "* OK" + rep(" ", n) + "\r\n" }),
		g("crlfs", "crlf", false, func(n int) string { return rep("\r\n", n) }),
	}
}
