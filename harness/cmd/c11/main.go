// C11 — the client never panics or blows up on arbitrary server bytes.
//
// A real imapclient.Client reads a byte stream from an in-memory connection; a fixed set of
// commands of every kind is pending so that every response parser has somewhere to route its
// data; then every accessor of every value handed back is called. Inputs run in worker
// subprocesses (RLIMIT_AS, 64 MiB max stack): a worker that dies — a panic in a helper goroutine
// of the library, a stack overflow, out of memory — is detected by the parent, which re-runs the
// open case alone to name the culprit.
//
//	run.go    one input under one variant: pending commands, accessors, oracles
//	gen.go    the enumerated input families (grammar, token/byte mutations, raw strings, growth)
//	worker.go the subprocess side
//	main.go   the parent: enumeration, batching, death attribution, confirmation, evidence, replay
package main

import (
	"bufio"
	"bytes"
	"encoding/hex"
	"encoding/json"
	"flag"
	"fmt"
	"hash/fnv"
	"os"
	"os/exec"
	"runtime"
	"sort"
	"strconv"
	"strings"
	"sync"
	"sync/atomic"
	"time"

	"github.com/emersion/go-imap/v2/verif/vk"
)

var run *vk.Run

// ---- running jobs in a worker ----

type workerOut struct {
	reports  []caseReport
	done     *doneReport
	lastBeg  int64 // id of the last case begun, -1 if none
	begun    int
	exitErr  error
	stderr   string
	timedOut bool
}

type workerOpts struct {
	asGiB    int
	budget   time.Duration // wall budget for the whole process (0 = none beyond the worker's own watchdog)
	watchdog int           // seconds, per case
}

func runWorker(jobs []job, wo workerOpts) workerOut {
	cmd := exec.Command(os.Args[0])
	env := append(os.Environ(), "C11_WORKER=1", "GOMAXPROCS=1", "GOGC=100", "GOTRACEBACK=all")
	if wo.asGiB > 0 {
		env = append(env, "C11_AS_GIB="+strconv.Itoa(wo.asGiB))
	}
	if wo.watchdog > 0 {
		env = append(env, "C11_WATCHDOG_S="+strconv.Itoa(wo.watchdog))
	}
	cmd.Env = env
	stdin, _ := cmd.StdinPipe()
	stdout, _ := cmd.StdoutPipe()
	var stderr tailBuffer
	cmd.Stderr = &stderr
	if err := cmd.Start(); err != nil {
		run.EngineError("cannot start worker: %v", err)
	}
	go func() {
		w := bufio.NewWriterSize(stdin, 1<<16)
		for _, j := range jobs {
			if writeJob(w, j) != nil {
				break
			}
		}
		w.Flush()
		stdin.Close()
	}()
	out := workerOut{lastBeg: -1}
	var timer *time.Timer
	var timedOut atomic.Bool
	if wo.budget > 0 {
		timer = time.AfterFunc(wo.budget, func() {
			timedOut.Store(true)
			cmd.Process.Kill()
		})
	}
	sc := bufio.NewScanner(stdout)
	sc.Buffer(make([]byte, 1<<20), 1<<28)
	for sc.Scan() {
		l := sc.Bytes()
		if len(l) < 2 {
			continue
		}
		switch l[0] {
		case 'B':
			n, _ := strconv.ParseInt(string(l[2:]), 10, 64)
			out.lastBeg = n
			out.begun++
		case 'R':
			var r caseReport
			if err := json.Unmarshal(l[2:], &r); err != nil {
				run.EngineError("bad worker line: %v: %.200s", err, l)
			}
			out.reports = append(out.reports, r)
		case 'D':
			var d doneReport
			if err := json.Unmarshal(l[2:], &d); err != nil {
				run.EngineError("bad worker line: %v: %.200s", err, l)
			}
			out.done = &d
		}
	}
	out.exitErr = cmd.Wait()
	if timer != nil {
		timer.Stop()
	}
	out.timedOut = timedOut.Load()
	out.stderr = stderr.String()
	return out
}

// tailBuffer keeps the head and the tail of what a worker wrote to stderr (a stack overflow
// dump of a 512k-deep recursion is large).
type tailBuffer struct {
	mu   sync.Mutex
	head []byte
	tail []byte
}

func (t *tailBuffer) Write(p []byte) (int, error) {
	t.mu.Lock()
	defer t.mu.Unlock()
	if len(t.head) < 16<<10 {
		n := 16<<10 - len(t.head)
		if n > len(p) {
			n = len(p)
		}
		t.head = append(t.head, p[:n]...)
	}
	t.tail = append(t.tail, p...)
	if len(t.tail) > 32<<10 {
		t.tail = append(t.tail[:0], t.tail[len(t.tail)-(16<<10):]...)
	}
	return len(p), nil
}

func (t *tailBuffer) String() string {
	t.mu.Lock()
	defer t.mu.Unlock()
	if len(t.tail) <= len(t.head) {
		return string(t.head)
	}
	return string(t.head) + "\n...\n" + string(t.tail)
}

// classifyDeath names what killed a worker from its stderr.
func classifyDeath(stderr string, timedOut bool) (kind, fn, msg string) {
	switch {
	case strings.Contains(stderr, "C11-WATCHDOG"):
		return "watchdog", "", "case did not finish within the engine watchdog"
	case strings.Contains(stderr, "stack overflow") || strings.Contains(stderr, "stack exceeds"):
		kind = "stack-overflow"
	case strings.Contains(stderr, "out of memory") || strings.Contains(stderr, "cannot allocate memory"):
		kind = "out-of-memory"
	case strings.Contains(stderr, "panic: "):
		kind = "panic"
	case strings.Contains(stderr, "fatal error: "):
		kind = "fatal"
	case timedOut:
		return "budget", "", "killed by the parent after its time budget"
	default:
		kind = "died"
	}
	for _, l := range strings.Split(stderr, "\n") {
		if strings.HasPrefix(l, "panic: ") || strings.HasPrefix(l, "fatal error: ") || strings.HasPrefix(l, "runtime: goroutine stack exceeds") {
			msg = l
			break
		}
	}
	const p = "github.com/emersion/go-imap/v2"
	for _, l := range strings.Split(stderr, "\n") {
		if strings.HasPrefix(l, p) && !strings.HasPrefix(l, p+"/verif") {
			fn = cleanFunc(strings.TrimPrefix(l, p))
			break
		}
	}
	return
}

// ---- candidates: per key, the shortest input ----

type candidate struct {
	Key     string
	Input   []byte
	Variant string
	What    string
	Family  string
	GrowthF string
	GrowthN int
	Count   int64
	Death   bool
	Rank    int // number of distinct keys the input shows: an input that shows only this defect is preferred
}

var (
	candMu sync.Mutex
	cands  = map[string]*candidate{}
)

func shorter(a, b []byte) bool {
	if len(a) != len(b) {
		return len(a) < len(b)
	}
	return bytes.Compare(a, b) < 0
}

func addCandidate(c candidate) {
	candMu.Lock()
	defer candMu.Unlock()
	old := cands[c.Key]
	if old == nil {
		c.Count = 1
		cc := c
		cc.Input = append([]byte{}, c.Input...)
		cands[c.Key] = &cc
		return
	}
	old.Count++
	better := c.Rank < old.Rank
	if c.Rank == old.Rank {
		switch {
		case !bytes.Equal(c.Input, old.Input):
			better = shorter(c.Input, old.Input)
		case c.GrowthF != old.GrowthF:
			better = c.GrowthF < old.GrowthF
		case c.GrowthN != old.GrowthN:
			better = c.GrowthN < old.GrowthN
		default:
			better = c.Variant < old.Variant
		}
	}
	if better {
		old.Rank = c.Rank
		old.Input = append([]byte{}, c.Input...)
		old.Variant, old.What, old.Family, old.GrowthF, old.GrowthN, old.Death = c.Variant, c.What, c.Family, c.GrowthF, c.GrowthN, c.Death
	}
}

func variantMask(names ...string) uint16 {
	var m uint16
	for _, n := range names {
		for i, v := range variantNames {
			if v == n {
				m |= 1 << uint(i)
			}
		}
	}
	return m
}

// maskFor: which variants an input runs under. cmdsA and unsol always. The others only differ
// from those two on inputs that reach the code that distinguishes them:
//   - cmdsB (UID flavours first, other consumption styles): responses routed by flavour/style
//   - bare (no handler): only handleFetch does anything without a handler (go msg.discard())
//   - greet: only status responses look at greetingRecv
//   - idle: continuation requests
//
// mode mFull: all six; mGrammar: the rule above; mMutation: cmdsB only for the responses whose
// accessors differ between the flavours (FETCH, SEARCH/ESEARCH, SORT, THREAD), greet only when the
// stream starts with a status response.
const (
	mFull = iota
	mGrammar
	mMutation
	mBasic // cmdsA and unsol only
	mRaw   // cmdsA, unsol, idle, greet (+ the keyword rule)
)

func maskFor(in []byte, mode int) uint16 {
	if mode == mFull {
		return 1<<numVariants - 1
	}
	m := variantMask("cmdsA", "unsol")
	if mode == mBasic {
		return m
	}
	if mode == mRaw {
		m |= variantMask("idle", "greet")
	}
	up := bytes.ToUpper(in)
	has := func(s string) bool { return bytes.Contains(up, []byte(s)) }
	if has("FETCH") || has("SEARCH") || has("SORT") || has("THREAD") {
		m |= variantMask("cmdsB")
	}
	if has("FETCH") {
		m |= variantMask("bare")
	}
	if bytes.HasPrefix(in, []byte("+")) || bytes.Contains(in, []byte("\n+")) {
		m |= variantMask("idle")
	}
	if mode == mGrammar {
		if has("COPYUID") || has("LIST") || has("EXPUNGE") || has("STATUS") {
			m |= variantMask("cmdsB")
		}
		if has("OK") || has("NO") || has("BAD") || has("BYE") || has("PREAUTH") || has("CAPABILITY") {
			m |= variantMask("greet")
		}
	} else {
		for _, p := range []string{"* OK", "* NO", "* BAD", "* BYE", "* PREAUTH"} {
			if bytes.HasPrefix(up, []byte(p)) {
				m |= variantMask("greet")
			}
		}
	}
	return m
}

// ---- batch pool ----

type pending struct {
	family string
	input  []byte
	mask   uint16
}

type pool struct {
	ch        chan []pending
	wg        sync.WaitGroup
	deaths    int64
	stopped   atomic.Bool
	total     doneReport
	mu        sync.Mutex
	fatalSeen int64
	predicted []pending // first few inputs for which the bare variant was skipped as predicted fatal
	batches   int64
}

const maxDeaths = 120

func newPool(workers int) *pool {
	p := &pool{ch: make(chan []pending, workers)}
	p.total.Cov = map[string]int64{}
	for i := 0; i < workers; i++ {
		p.wg.Add(1)
		go func() {
			defer p.wg.Done()
			for b := range p.ch {
				p.runBatch(b)
			}
		}()
	}
	return p
}

func (p *pool) merge(d *doneReport) {
	if d == nil {
		return
	}
	p.mu.Lock()
	defer p.mu.Unlock()
	p.total.Cases += d.Cases
	p.total.Runs += d.Runs
	p.total.Delivered += d.Delivered
	p.total.Rejected += d.Rejected
	p.total.CleanClose += d.CleanClose
	p.total.BareSkips += d.BareSkips
	for k, v := range d.Cov {
		p.total.Cov[k] += v
	}
}

func (p *pool) record(b []pending, reports []caseReport) {
	for _, r := range reports {
		pc := b[r.ID]
		keys := map[string]bool{}
		for _, f := range r.Findings {
			keys[f.Key] = true
		}
		for _, f := range r.Findings {
			addCandidate(candidate{Key: f.Key, Input: pc.input, Variant: f.Variant, What: f.What, Family: pc.family, Rank: len(keys)})
		}
		if r.PredictedFatal {
			p.mu.Lock()
			if len(p.predicted) < 64 {
				p.predicted = append(p.predicted, pc)
			}
			p.mu.Unlock()
		}
	}
}

func (p *pool) runBatch(b []pending) {
	if n := atomic.AddInt64(&p.batches, 1); n == 40 && os.Getenv("C11_DUMPJOBS") != "" {
		if fh, err := os.Create(os.Getenv("C11_DUMPJOBS")); err == nil {
			for i := range b {
				writeJob(fh, job{id: uint32(i), mask: b[i].mask, input: b[i].input})
			}
			fh.Close()
		}
	}
	start := 0
	for start < len(b) {
		if p.stopped.Load() {
			return
		}
		jobs := make([]job, 0, len(b)-start)
		for i := start; i < len(b); i++ {
			jobs = append(jobs, job{id: uint32(i), mask: b[i].mask, input: b[i].input})
		}
		out := runWorker(jobs, workerOpts{})
		p.record(b, out.reports)
		if out.done != nil {
			p.merge(out.done)
			return
		}
		// the worker died: the case that was open is the suspect
		k := int(out.lastBeg)
		if k < start {
			run.EngineError("worker died before starting any case: %v\n%s", out.exitErr, out.stderr)
		}
		kind, fn, msg := classifyDeath(out.stderr, false)
		if kind == "watchdog" {
			run.EngineError("watchdog: input %q did not finish (family %s)\n%s", b[k].input, b[k].family, tail(out.stderr, 6000))
		}
		// cases start..k-1 completed in the dead worker but their summary was lost: count them
		p.merge(&doneReport{Cases: int64(k - start)})
		confirmed := false
		for try := 0; try < 3 && !confirmed; try++ {
			o2 := runWorker([]job{{id: uint32(k), mask: b[k].mask, input: b[k].input}}, workerOpts{})
			if o2.done == nil {
				confirmed = true
				kind, fn, msg = classifyDeath(o2.stderr, false)
				out = o2
			}
		}
		if !confirmed {
			run.EngineError("a worker died at input %q (family %s: %s %s) but the input does not kill a fresh worker in 3 runs\n%s", b[k].input, b[k].family, kind, msg, tail(out.stderr, 4000))
		}
		key := deathKey(kind, fn, msg, out.stderr)
		addCandidate(candidate{Key: key, Input: b[k].input, Variant: "worker-death", Family: b[k].family, Death: true, Rank: 1,
			What: fmt.Sprintf("the worker process died (%s): %s; first go-imap frame %s — a panic outside the reader goroutine is not recovered by the client: fatal to the application", kind, msg, fn)})
		p.merge(&doneReport{Cases: 1})
		if atomic.AddInt64(&p.deaths, 1) >= maxDeaths {
			p.stopped.Store(true)
			return
		}
		start = k + 1
	}
}

func deathKey(kind, fn, msg, stderr string) string {
	switch kind {
	case "panic":
		if strings.Contains(msg, "nil pointer dereference") && (strings.Contains(stderr, "Section.discard") || strings.Contains(stderr, "populateItemData")) {
			return "panic:fetch-body-nil-literal"
		}
		return "fatal-panic:" + fn
	case "stack-overflow":
		return "unbounded-recursion:" + fn
	case "out-of-memory":
		return "out-of-memory:" + fn
	}
	return "worker-death:" + kind + ":" + fn
}

func tail(s string, n int) string {
	if len(s) > n {
		return s[len(s)-n:]
	}
	return s
}

// ---- enumeration driver ----

type feeder struct {
	p      *pool
	seen   map[uint64]struct{}
	batch  []pending
	size   int
	counts map[string]int64
	dups   int64
	order  []string
}

func (f *feeder) add(family string, in []byte, mode int) {
	h := fnv.New64a()
	h.Write(in)
	k := h.Sum64()
	if _, ok := f.seen[k]; ok {
		f.dups++
		return
	}
	f.seen[k] = struct{}{}
	if _, ok := f.counts[family]; !ok {
		f.order = append(f.order, family)
	}
	f.counts[family]++
	f.batch = append(f.batch, pending{family: family, input: append([]byte{}, in...), mask: maskFor(in, mode)})
	if len(f.batch) >= f.size {
		f.flush()
	}
}

func (f *feeder) flush() {
	if len(f.batch) > 0 {
		if os.Getenv("C11_DRY") == "" {
			f.p.ch <- f.batch
		}
		f.batch = nil
	}
}

func main() {
	if os.Getenv("C11_WORKER") == "1" {
		workerMain()
		return
	}
	inputFlag := flag.String("input", "", "debug: run one Go-quoted input verbosely under every variant and exit")
	run = vk.Start("C11", "exploration")
	if *inputFlag != "" {
		s, err := strconv.Unquote(`"` + *inputFlag + `"`)
		if err != nil {
			run.EngineError("bad --input: %v", err)
		}
		showOne([]byte(s), 1<<numVariants-1, false)
		return
	}
	if run.Replay != "" {
		replay()
		return
	}
	if sel := os.Getenv("C11_GROWTH_SCAN"); sel != "" {
		growthScan(sel)
		return
	}
	t0 := time.Now()
	thorough := run.Thorough()
	workers := runtime.GOMAXPROCS(0)

	tops, productions := buildGrammar()
	kGrammar, kToken, rawLen := 2, 0, 3
	if thorough {
		kGrammar, kToken, rawLen = 3, 1, 4
	}

	p := newPool(workers)
	f := &feeder{p: p, seen: map[uint64]struct{}{}, size: 1500, counts: map[string]int64{}}

	// growth families run beside the batches (their verdict rests on allocation and work
	// counters, which do not depend on the load; CPU time is only a >= 6x signal)
	var gwg sync.WaitGroup
	gres := make(chan growthResult, 256)
	gwg.Add(1)
	go func() {
		defer gwg.Done()
		if os.Getenv("C11_DRY") == "" {
			runGrowth(thorough, gres)
		}
	}()

	// (i) grammar derivations
	for _, t := range tops {
		derive(t, kGrammar, func(s []byte) { f.add("grammar", s, mGrammar) })
	}
	// default derivation of every production with every variant, and pairs of them
	var defaults [][]byte
	for _, t := range tops {
		derive(t, 0, func(s []byte) {
			defaults = append(defaults, append([]byte{}, s...))
		})
	}
	// the defaults were already seen by the de-duplication above: run them explicitly under all six variants
	{
		var b []pending
		for _, a := range defaults {
			b = append(b, pending{family: "grammar-default-all-variants", input: a, mask: maskFor(a, mFull)})
		}
		f.counts["grammar-default-all-variants"] += int64(len(b))
		f.order = append(f.order, "grammar-default-all-variants")
		if os.Getenv("C11_DRY") == "" {
			p.ch <- b
		}
	}
	for _, a := range defaults {
		for _, b := range defaults {
			f.add("grammar-pairs", append(append([]byte{}, a...), b...), mGrammar)
		}
	}
	fmt.Fprintf(os.Stderr, "c11: grammar fed: %v t=%s\n", f.counts, time.Since(t0).Round(time.Millisecond))
	// (ii) token mutations of the derivations with budget kToken
	for _, t := range tops {
		derive(t, kToken, func(s []byte) {
			tokenMutations(string(s), func(m string) { f.add("token-mutations", []byte(m), mMutation) })
		})
	}
	fmt.Fprintf(os.Stderr, "c11: token mutations fed: %v t=%s\n", f.counts, time.Since(t0).Round(time.Millisecond))
	// (iii) byte mutations and truncations of the base responses
	for _, b := range baseResponses {
		f.add("base-responses", []byte(b), mFull)
		byteMutations(b, thorough, func(m []byte, structural bool) {
			if structural {
				f.add("byte-mutations", m, mMutation)
			} else {
				f.add("byte-mutations", m, mBasic)
			}
		})
	}
	fmt.Fprintf(os.Stderr, "c11: byte mutations fed: %v t=%s\n", f.counts, time.Since(t0).Round(time.Millisecond))
	// (iv) raw strings after a prefix
	prefixes := []struct {
		p string
		n int
	}{{"* ", rawLen}, {"", rawLen - 1}, {"* 1 ", rawLen - 1}, {"T22 ", rawLen - 1}, {"+", rawLen - 1}, {"* OK [", rawLen - 1}, {"* 1 FETCH (", rawLen - 1}, {"* ESEARCH ", rawLen - 1}}
	for _, pf := range prefixes {
		rawStrings(pf.n, func(s string) {
			f.add("raw", []byte(pf.p+s), mRaw)
			f.add("raw", []byte(pf.p+s+"\r\n"), mRaw)
		})
	}
	f.flush()
	close(p.ch)
	p.wg.Wait()
	fmt.Fprintf(os.Stderr, "c11: batches done: cases=%d runs=%d deaths=%d t=%s\n", p.total.Cases, p.total.Runs, p.deaths, time.Since(t0).Round(time.Millisecond))

	// the bare variant was skipped where the handler variant predicted the fatal panic: show it on the shortest few
	sort.Slice(p.predicted, func(i, j int) bool { return shorter(p.predicted[i].input, p.predicted[j].input) })
	shown := 0
	for _, pc := range p.predicted {
		if shown >= 3 {
			break
		}
		shown++
		out := runWorker([]job{{id: 0, mask: variantMask("bare"), flags: fForce, input: pc.input}}, workerOpts{})
		if out.done != nil {
			run.EngineError("predicted-fatal input %q did not kill a worker under the bare variant", pc.input)
		}
		kind, fn, msg := classifyDeath(out.stderr, false)
		addCandidate(candidate{Key: deathKey(kind, fn, msg, out.stderr), Input: pc.input, Variant: "bare", Family: pc.family, Death: true, Rank: 1,
			What: fmt.Sprintf("unsolicited FETCH with no handler installed: the library's own `go msg.discard()` panics and kills the process (%s): %s", kind, msg)})
	}

	// informative only (not part of the property): valid base responses the client refuses
	var refused []string
	{
		var jobs []job
		for i, b := range baseResponses {
			jobs = append(jobs, job{id: uint32(i), mask: variantMask("cmdsA"), flags: fVerbose, input: []byte(b)})
		}
		if os.Getenv("C11_DRY") == "" {
			out := runWorker(jobs, workerOpts{})
			for _, r := range out.reports {
				if e := r.CloseErr["cmdsA"]; e != "" && e != "<nil>" {
					refused = append(refused, fmt.Sprintf("%s -> %s", vk.Q(baseResponses[r.ID]), e))
				}
			}
		}
	}

	gwg.Wait()
	close(gres)
	growthSummary := map[string]interface{}{}
	growthExhaustive := true
	for r := range gres {
		growthSummary[r.Family] = r.Summary
		if !r.Complete {
			growthExhaustive = false
		}
	}

	// ---- confirm every key 5x from its shortest input, then report ----
	confirmAll()

	// ---- evidence ----
	var fams []string
	for _, n := range f.order {
		fams = append(fams, fmt.Sprintf("%s=%d", n, f.counts[n]))
	}
	run.AddEvals(p.total.Runs + growthRuns.Load())
	run.NontrivialN(p.total.Delivered)
	run.Set("distinct_inputs", p.total.Cases)
	run.Set("inputs_per_family", fams)
	run.Set("duplicate_inputs_skipped", f.dups)
	run.Set("variant_runs", p.total.Runs)
	run.Set("inputs_with_data_delivered", p.total.Delivered)
	run.Set("inputs_rejected_with_error", p.total.Rejected)
	run.Set("inputs_accepted_to_eof", p.total.CleanClose)
	run.Set("bare_runs_skipped_predicted_fatal", p.total.BareSkips)
	run.Set("worker_deaths", p.deaths)
	run.Set("grammar_productions", int64(productions))
	run.Set("grammar_top_level_productions", int64(len(tops)))
	run.Set("grammar_budget", int64(kGrammar))
	run.Set("token_mutation_budget", int64(kToken))
	run.Set("raw_max_len", int64(rawLen))
	run.Set("base_responses", int64(len(baseResponses)))
	run.Set("delivered_by_kind", p.total.Cov)
	run.Set("growth", growthSummary)
	run.Set("growth_runs", growthRuns.Load())
	run.Set("growth_ratios_above_limit_remeasured", remeasured.Load())
	run.Set("batches", p.batches)
	run.Set("base_responses_refused_by_the_client_informative", refused)
	run.Sample("grammar", string(defaults[len(defaults)/3]))
	run.Sample("base", baseResponses[44])
	if p.total.Delivered == 0 || p.total.Rejected == 0 {
		run.EngineError("vacuous run: delivered=%d rejected=%d", p.total.Delivered, p.total.Rejected)
	}
	run.Rule = fmt.Sprintf("real imapclient.Client on an in-memory connection, in worker subprocesses (RLIMIT_AS 4 GiB, max stack 64 MiB); variants %v (pending commands of every kind / unilateral handlers / no handler / IDLE / stream as greeting). Inputs: (i) every derivation of a %d-production response grammar that leaves the default derivation of one of %d top-level productions in <= %d choice points (terminal classes: numbers {1,0,2^32-1,2^32,2^63-1,2^63,2^64}, sets {1,1:*,*,$,0,1:0,4294967295,1:4294967295,2,4:6}, strings {quoted,atom,literal,literal8,NIL}), all pairs of default derivations; (ii) delete/duplicate/replace-by-each-other-class of every token of every derivation with budget %d; (iii) truncations, deletions, insertions and replacements (%s byte values) at every position of %d base responses; (iv) every string of <= %d symbols over %q after 8 prefixes, with and without CRLF; (v) growth families n=1k..%s. non-trivial = distinct inputs for which data reached a command or handler",
		variantNames, productions, len(tops), kGrammar, kToken, map[bool]string{false: fmt.Sprint(len(quickBytes)), true: "256"}[thorough], len(baseResponses), rawLen, rawAlphabet, map[bool]string{false: "64k (+512k for the recursive productions)", true: "512k"}[thorough])
	run.Exhaustive = !p.stopped.Load() && growthExhaustive
	run.Assume("variants other than cmdsA/unsol run only on inputs that can reach the code that distinguishes them (keyword filter in maskFor); the default derivation of every production, the base responses and the raw strings run under all six")
	run.Assume("sets with more than 2^20 members are not enumerated in batch workers (reported as unbounded-alloc and demonstrated once in an isolated worker under RLIMIT_AS 2 GiB)")
	run.Assume("ESEARCH MIN/MAX 0, UIDNEXT/UIDVALIDITY/APPENDUID 0 are not flagged: 0 is the API's 'absent' value there")
	run.Assume("CPU time (rusage of the worker) is recorded per growth run; reported are a >= 6x ratio per doubling at >= 1 s, and a >= 24x ratio over three doublings (linear: 8x) ending at >= 1 s of CPU — re-measured, the smallest ratio counts; allocation, malloc count and read/deadline call counts must stay <= 2.5x per doubling")
	run.Assume("allocation counters of one input vary between runs by an additive amount (a select between two ready channels inside the client decides whether an O(n) error string is formatted): every growth series opens with an unmeasured warm-up job; a ratio above 2.5x is re-measured up to 12 times and reported only if every pair ratio and the ratio of the per-size minima stay above 2.5x")
	run.Assume("the bare variant is skipped for an input when the handler variant already showed the nil-literal item that makes `go msg.discard()` panic; the three shortest such inputs are run to show the process dies")
	run.Assume("inputs are de-duplicated on a 64-bit FNV hash")
	if p.stopped.Load() {
		run.Assume(fmt.Sprintf("exploration stopped after %d worker deaths", maxDeaths))
	}
	fmt.Fprintf(os.Stderr, "c11: done t=%s\n", time.Since(t0).Round(time.Millisecond))
	run.Finish()
}

// ---- confirmation ----

func confirmAll() {
	candMu.Lock()
	var keys []string
	for k := range cands {
		keys = append(keys, k)
	}
	candMu.Unlock()
	sort.Strings(keys)
	var mu sync.Mutex
	details := map[string]map[string]interface{}{}
	vk.ParallelW(8, len(keys), func(i int) {
		c := cands[keys[i]]
		d := confirm(c)
		mu.Lock()
		details[c.Key] = d
		mu.Unlock()
	})
	for _, k := range keys {
		if d := details[k]; d != nil {
			run.Violation(k, d)
		}
	}
}

func candDetail(c *candidate) map[string]interface{} {
	d := map[string]interface{}{
		"variant": c.Variant, "what": c.What, "family": c.Family, "inputs_with_this_key": c.Count,
	}
	if c.GrowthN > 0 {
		d["growth_n"] = c.GrowthN
		d["growth_family"] = c.GrowthF
		d["input_prefix"] = vk.Q(string(c.Input[:min(len(c.Input), 120)]))
	} else {
		d["input"] = vk.Q(string(c.Input))
		d["input_hex"] = hex.EncodeToString(c.Input)
	}
	return d
}

func min(a, b int) int {
	if a < b {
		return a
	}
	return b
}

// confirm re-runs the shortest input of a key five times in fresh workers; all five must show the key.
func confirm(c *candidate) map[string]interface{} {
	d := candDetail(c)
	if c.Family == "growth" {
		return d // growth verdicts are re-measured where they are made
	}
	if c.Key == "unbounded-alloc:numset-nums-materialises-range" {
		// demonstrate once, bounded: AllSeqNums()/Nums() really called under RLIMIT_AS 2 GiB
		out := runWorker([]job{{id: 0, mask: variantMask(c.Variant), flags: fEnumHuge, input: c.Input}}, workerOpts{asGiB: 2, budget: 60 * time.Second})
		kind, _, msg := classifyDeath(out.stderr, out.timedOut)
		if out.done != nil {
			d["demonstration"] = "enumeration completed within 2 GiB"
		} else {
			d["demonstration"] = fmt.Sprintf("worker with RLIMIT_AS=2GiB calling the enumerating accessor died: %s %s", kind, msg)
		}
	}
	mask := variantMask(c.Variant)
	flags := uint8(0)
	if c.Death {
		mask = maskFor(c.Input, mFull)
		flags = fForce
	}
	for i := 0; i < 5; i++ {
		out := runWorker([]job{{id: 0, mask: mask, flags: flags, input: c.Input}}, workerOpts{})
		ok := false
		if c.Death {
			if out.done == nil {
				kind, fn, msg := classifyDeath(out.stderr, false)
				ok = deathKey(kind, fn, msg, out.stderr) == c.Key
				d["stderr_head"] = strings.Join(strings.SplitN(out.stderr, "\n", 14)[:min(13, strings.Count(out.stderr, "\n"))], "\n")
			}
		} else {
			for _, r := range out.reports {
				for _, f := range r.Findings {
					if f.Key == c.Key {
						ok = true
					}
				}
			}
		}
		if !ok {
			run.EngineError("violation %s on input %q (variant %s) did not reproduce on re-run %d/5\n%s", c.Key, c.Input, c.Variant, i+1, tail(out.stderr, 2000))
		}
	}
	d["replayed"] = "5x in fresh workers, same verdict"
	return d
}

// ---- single input, verbose (debug flag and --replay) ----

func showOne(in []byte, mask uint16, force bool) (keys map[string]bool) {
	keys = map[string]bool{}
	fmt.Printf("input (%d bytes): %s\n", len(in), vk.Q(string(in[:min(len(in), 400)])))
	for v := 0; v < numVariants; v++ {
		if mask&(1<<uint(v)) == 0 {
			continue
		}
		fl := uint8(fVerbose)
		if force {
			fl |= fForce
		}
		out := runWorker([]job{{id: 0, mask: 1 << uint(v), flags: fl, input: in}}, workerOpts{budget: 120 * time.Second})
		fmt.Printf("---- variant %s ----\n", variantNames[v])
		for _, r := range out.reports {
			for _, l := range r.Trace[variantNames[v]] {
				fmt.Println("  " + l)
			}
			for _, f := range r.Findings {
				fmt.Printf("  => finding key=%s: %s\n", f.Key, f.What)
				keys[f.Key] = true
			}
			if r.PredictedFatal {
				fmt.Println("  (bare variant skipped: the handler variant predicts a fatal panic)")
			}
		}
		if out.done == nil {
			kind, fn, msg := classifyDeath(out.stderr, out.timedOut)
			fmt.Printf("  => WORKER DIED: %s: %s (first go-imap frame: %s) key=%s\n", kind, msg, fn, deathKey(kind, fn, msg, out.stderr))
			keys[deathKey(kind, fn, msg, out.stderr)] = true
			lines := strings.Split(out.stderr, "\n")
			for i := 0; i < len(lines) && i < 24; i++ {
				fmt.Println("     | " + lines[i])
			}
		}
	}
	return keys
}

func replay() {
	b, err := os.ReadFile(run.Replay)
	if err != nil {
		run.EngineError("%v", err)
	}
	var f struct {
		Key    string `json:"key"`
		Detail struct {
			InputHex string `json:"input_hex"`
			Variant  string `json:"variant"`
			Family   string `json:"family"`
			GrowthF  string `json:"growth_family"`
			GrowthN  int    `json:"growth_n"`
			What     string `json:"what"`
		} `json:"detail"`
	}
	if err := json.Unmarshal(b, &f); err != nil {
		run.EngineError("bad replay file: %v", err)
	}
	fmt.Printf("replaying key=%s\n  %s\n", f.Key, f.Detail.What)
	if f.Detail.GrowthF != "" {
		if replayGrowth(f.Detail.GrowthF, f.Detail.GrowthN) {
			fmt.Printf("REPRODUCED property=C11 key=%s\n", f.Key)
			os.Exit(1)
		}
		fmt.Printf("NOT REPRODUCED property=C11 key=%s\n", f.Key)
		return
	}
	in, err := hex.DecodeString(f.Detail.InputHex)
	if err != nil {
		run.EngineError("bad input_hex: %v", err)
	}
	mask := variantMask(f.Detail.Variant)
	force := false
	if mask == 0 { // worker-death: all variants
		mask = 1<<numVariants - 1
		force = true
	}
	if f.Detail.Variant == "bare" {
		force = true
	}
	keys := showOne(in, mask, force)
	if keys[f.Key] {
		fmt.Printf("REPRODUCED property=C11 key=%s\n", f.Key)
		os.Exit(1)
	}
	fmt.Printf("NOT REPRODUCED property=C11 key=%s (keys seen: %v)\n", f.Key, keys)
}
