package main

import (
	"bytes"
	"fmt"
	"io"
	"reflect"
	"runtime"
	"runtime/debug"
	"sort"
	"strings"
	"sync"
	"time"
	"unsafe"

	imap "github.com/emersion/go-imap/v2"
	"github.com/emersion/go-imap/v2/imapclient"
)

// ---- variants: which commands are pending / which handlers are installed when the stream arrives ----

const (
	vCmdsA = iota // selected; one pending command of each kind (seq flavours first); handlers installed
	vCmdsB        // same, UID flavours first, other consumption styles
	vUnsol        // selected; nothing pending; every unilateral handler installed
	vBare         // selected; nothing pending; no handler (library default: go msg.discard())
	vIdle         // selected; IDLE pending; handlers installed
	vGreet        // the stream is the first thing the client ever reads
	numVariants
)

var variantNames = [numVariants]string{"cmdsA", "cmdsB", "unsol", "bare", "idle", "greet"}

const greeting = "* PREAUTH [CAPABILITY IMAP4rev1 LITERAL+ LITERAL- MOVE UIDPLUS ESEARCH SORT THREAD=REFERENCES QUOTA METADATA NAMESPACE ENABLE IDLE CONDSTORE BINARY LIST-EXTENDED LIST-STATUS SPECIAL-USE] ready\r\n"
const selectReply = "* 3 EXISTS\r\n* FLAGS (\\Seen)\r\n* OK [PERMANENTFLAGS (\\Seen \\*)] ok\r\n* OK [UIDVALIDITY 7] ok\r\n* OK [UIDNEXT 9] ok\r\nT1 OK [READ-WRITE] done\r\n"

// legitimate nesting is capped by the decoder at 1000
const maxLegitDepth = 1000

// sets with more members than this are never enumerated in a batch worker (see unbounded-alloc)
const enumLimit = 1 << 20

type finding struct {
	Key     string `json:"key"`
	Variant string `json:"variant"`
	What    string `json:"what"`
}

type numObs struct {
	site string
	v    uint64
}

// obs collects everything observed while one input runs under one variant.
type obs struct {
	input       []byte
	variant     int
	verbose     bool
	enumHuge    bool // really enumerate huge static sets (isolated probe worker only)
	mu          sync.Mutex
	findings    []finding
	trace       []string
	cov         map[string]int64
	nums        []numObs
	nilLiteral  bool
	delivered   int
	closeErr    string
	isESearch   bool
	maxDepthObs int

	shortLiterals []string
}

func (o *obs) note(format string, a ...interface{}) {
	if !o.verbose {
		return
	}
	o.mu.Lock()
	o.trace = append(o.trace, fmt.Sprintf(format, a...))
	o.mu.Unlock()
}

func (o *obs) cover(kind string) {
	o.mu.Lock()
	o.cov[kind]++
	o.delivered++
	o.mu.Unlock()
}

func (o *obs) viol(key, what string) {
	o.mu.Lock()
	defer o.mu.Unlock()
	for _, f := range o.findings {
		if f.Key == key {
			return
		}
	}
	if len(what) > 600 {
		what = what[:600] + "..."
	}
	o.findings = append(o.findings, finding{key, variantNames[o.variant], what})
	if o.verbose {
		o.trace = append(o.trace, "!! VIOLATION "+key+": "+what)
	}
}

func (o *obs) num(site string, v uint64) {
	o.mu.Lock()
	o.nums = append(o.nums, numObs{site, v})
	o.mu.Unlock()
}

// try calls f; a panic is recorded as a violation keyed by the go-imap function it came from.
func (o *obs) try(site string, f func()) (ok bool) {
	defer func() {
		if r := recover(); r != nil {
			ok = false
			st := string(debug.Stack())
			fn := imapFrame(st)
			msg := fmt.Sprint(r)
			key := panicKey("panic:", fn, msg, site)
			o.viol(key, fmt.Sprintf("accessor %s panicked: %s (in %s)", site, msg, fn))
			o.note("%s PANICKED: %s (in %s)", site, msg, fn)
		}
	}()
	f()
	return true
}

func panicKey(prefix, fn, msg, site string) string {
	nilDeref := strings.Contains(msg, "nil pointer dereference")
	switch {
	case nilDeref && (strings.HasSuffix(fn, "Section.discard") || strings.HasSuffix(fn, "populateItemData")):
		return "panic:fetch-body-nil-literal"
	case fn == "":
		return prefix + "accessor:" + site
	}
	return prefix + fn
}

// imapFrame returns the first go-imap (not harness) function below the panic in a stack dump.
func imapFrame(stack string) string {
	lines := strings.Split(stack, "\n")
	start := 0
	for i, l := range lines {
		if strings.HasPrefix(l, "panic(") || strings.HasPrefix(l, "runtime.sigpanic") || strings.HasPrefix(l, "runtime.panic") || strings.HasPrefix(l, "runtime.goPanic") {
			start = i + 1
		}
	}
	const p = "github.com/emersion/go-imap/v2"
	for _, l := range lines[start:] {
		if strings.HasPrefix(l, "\t") || !strings.HasPrefix(l, p) || strings.HasPrefix(l, p+"/verif") {
			continue
		}
		return cleanFunc(strings.TrimPrefix(l, p))
	}
	return ""
}

// cleanFunc turns "/imapclient.(*Client).handleFetch.func2({0x0, ...})" into "imapclient.Client.handleFetch".
func cleanFunc(fn string) string {
	fn = strings.TrimLeft(fn, "/.")
	// cut the trailing argument list (it may contain nested parentheses)
	if strings.HasSuffix(fn, ")") {
		depth := 0
		for k := len(fn) - 1; k >= 0; k-- {
			if fn[k] == ')' {
				depth++
			} else if fn[k] == '(' {
				depth--
				if depth == 0 {
					fn = fn[:k]
					break
				}
			}
		}
	}
	fn = strings.NewReplacer("(*", "", ")", "", "[...]", "").Replace(fn)
	for {
		i := strings.LastIndex(fn, ".")
		if i < 0 {
			break
		}
		tail := fn[i+1:]
		if strings.HasPrefix(tail, "func") || (len(tail) > 0 && tail[0] >= '0' && tail[0] <= '9') {
			fn = fn[:i]
			continue
		}
		break
	}
	return fn
}

func unexported(ptr interface{}, name string) reflect.Value {
	v := reflect.ValueOf(ptr).Elem().FieldByName(name)
	return reflect.NewAt(v.Type(), unsafe.Pointer(v.UnsafeAddr())).Elem()
}

func q(s string) string {
	if len(s) > 80 {
		return fmt.Sprintf("%q...(%d bytes)", s[:80], len(s))
	}
	return fmt.Sprintf("%q", s)
}

// ---- number sets ----

func ranges(ns imap.NumSet) (rs [][2]uint32) {
	switch s := ns.(type) {
	case imap.SeqSet:
		for _, r := range s {
			rs = append(rs, [2]uint32{r.Start, r.Stop})
		}
	case imap.UIDSet:
		for _, r := range s {
			rs = append(rs, [2]uint32{uint32(r.Start), uint32(r.Stop)})
		}
	}
	return
}

// checkNumSet calls String/Dynamic/Nums on a set handed back by the client. Returns whether it is dynamic.
func (o *obs) checkNumSet(site string, ns imap.NumSet) (dyn bool, str string) {
	if ns == nil {
		o.note("%s = <nil NumSet>", site)
		return false, ""
	}
	o.try(site+".String", func() { str = ns.String() })
	o.try(site+".Dynamic", func() { dyn = ns.Dynamic() })
	var card uint64
	for _, r := range ranges(ns) {
		if r[0] != 0 && r[1] != 0 && r[1] >= r[0] {
			card += uint64(r[1]-r[0]) + 1
		}
	}
	o.note("%s = %T %s Dynamic=%v members=%d", site, ns, q(str), dyn, card)
	if dyn {
		return dyn, str
	}
	if card > enumLimit && !o.enumHuge {
		o.viol("unbounded-alloc:numset-nums-materialises-range",
			fmt.Sprintf("%s is %s: enumerating it (Nums/AllSeqNums/AllUIDs) materialises %d numbers = %d bytes from a %d-byte response; not enumerated in the batch worker", site, str, card, card*4, len(o.input)))
		return dyn, str
	}
	o.try(site+".Nums", func() {
		var n int
		var ok, zero bool
		switch s := ns.(type) {
		case imap.SeqSet:
			var l []uint32
			l, ok = s.Nums()
			n = len(l)
			for _, x := range l {
				zero = zero || x == 0
			}
		case imap.UIDSet:
			var l []imap.UID
			l, ok = s.Nums()
			n = len(l)
			for _, x := range l {
				zero = zero || x == 0
			}
		}
		o.note("%s.Nums() -> %d numbers ok=%v", site, n, ok)
		if zero {
			o.viol("zero-in-numset:"+site, str)
		}
	})
	return dyn, str
}

// ---- FETCH data ----

func (o *obs) readLiteral(site string, lit imap.LiteralReader) {
	if lit == nil {
		o.mu.Lock()
		o.nilLiteral = true
		o.mu.Unlock()
		o.note("%s Literal = nil", site)
		return
	}
	o.try(site+".Literal.Read", func() {
		size := lit.Size()
		var total int64
		buf := make([]byte, 512)
		var err error
		for {
			var n int
			n, err = lit.Read(buf)
			total += int64(n)
			if err != nil {
				break
			}
		}
		// reading again after the end must stay harmless
		n2, err2 := lit.Read(buf)
		o.note("%s Literal Size=%d read=%d err=%v; read after end: %d %v", site, size, total, err, n2, err2)
		if size < 0 {
			o.viol("malformed-literal-delivered:negative-size", fmt.Sprintf("%s: literal with Size()=%d delivered", site, size))
		} else if err == io.EOF && total != size {
			// a literal is streamed, so a short one can only be reported afterwards: it is a
			// violation when nothing (Close/Wait) reports an error either — decided in settle()
			o.mu.Lock()
			o.shortLiterals = append(o.shortLiterals, fmt.Sprintf("%s: Size()=%d but %d bytes read to a clean io.EOF", site, size, total))
			o.mu.Unlock()
		}
	})
}

func bodyDepth(bs imap.BodyStructure) (depth, nodes int) {
	type ent struct {
		b imap.BodyStructure
		d int
	}
	stack := []ent{{bs, 1}}
	for len(stack) > 0 {
		e := stack[len(stack)-1]
		stack = stack[:len(stack)-1]
		nodes++
		if e.d > depth {
			depth = e.d
		}
		switch b := e.b.(type) {
		case *imap.BodyStructureMultiPart:
			for _, c := range b.Children {
				stack = append(stack, ent{c, e.d + 1})
			}
		case *imap.BodyStructureSinglePart:
			if b.MessageRFC822 != nil && b.MessageRFC822.BodyStructure != nil {
				stack = append(stack, ent{b.MessageRFC822.BodyStructure, e.d + 1})
			}
		}
	}
	return
}

func (o *obs) checkEnvelope(site string, env *imap.Envelope) {
	if env == nil {
		o.note("%s Envelope = nil", site)
		return
	}
	o.try(site+".Envelope", func() {
		n := 0
		for _, l := range [][]imap.Address{env.From, env.Sender, env.ReplyTo, env.To, env.Cc, env.Bcc} {
			for i := range l {
				a := &l[i]
				_ = a.Addr()
				_ = a.IsGroupStart()
				_ = a.IsGroupEnd()
				n++
			}
		}
		o.note("%s Envelope date=%v subject=%s addrs=%d inReplyTo=%d msgid=%s", site, env.Date.IsZero(), q(env.Subject), n, len(env.InReplyTo), q(env.MessageID))
	})
}

func (o *obs) checkBody(site string, bs imap.BodyStructure) {
	if bs == nil {
		o.note("%s BodyStructure = nil", site)
		return
	}
	depth, nodes := bodyDepth(bs)
	o.mu.Lock()
	if depth > o.maxDepthObs {
		o.maxDepthObs = depth
	}
	o.mu.Unlock()
	o.note("%s BodyStructure depth=%d nodes=%d", site, depth, nodes)
	if depth > maxLegitDepth {
		o.viol("unbounded-recursion:bodystructure", fmt.Sprintf("%s: a body structure nested %d deep was delivered (decoder cap is %d)", site, depth, maxLegitDepth))
		if depth > 5000 {
			return // Walk copies the path at every level: quadratic on a tree this deep
		}
	}
	o.try(site+".BodyStructure", func() {
		_ = bs.MediaType()
		_ = bs.Disposition()
		visited := 0
		bs.Walk(func(path []int, part imap.BodyStructure) bool {
			visited++
			_ = part.MediaType()
			_ = part.Disposition()
			if sp, ok := part.(*imap.BodyStructureSinglePart); ok {
				_ = sp.Filename()
				o.num(site+".body.size", uint64(sp.Size))
				if sp.Text != nil {
					o.int64f(site+".body.text.lines", sp.Text.NumLines)
				}
				if sp.MessageRFC822 != nil {
					o.int64f(site+".body.msg.lines", sp.MessageRFC822.NumLines)
					o.checkEnvelope(site+".body.msg", sp.MessageRFC822.Envelope)
				}
			}
			return true
		})
		o.note("%s BodyStructure %s walked=%d", site, bs.MediaType(), visited)
	})
}

func (o *obs) int64f(site string, v int64) {
	if v < 0 {
		o.viol("malformed-number-delivered:negative", fmt.Sprintf("%s = %d", site, v))
		return
	}
	o.num(site, uint64(v))
}

func (o *obs) fetchSeq(via string, seq uint32) {
	o.cover("fetch:" + via)
	o.num("fetch.seqnum", uint64(seq))
	if seq == 0 {
		o.viol("zero-seqnum-delivered:fetch", fmt.Sprintf("FETCH message data with SeqNum 0 delivered via %s", via))
	}
}

func (o *obs) checkItem(site string, item imapclient.FetchItemData) {
	switch it := item.(type) {
	case imapclient.FetchItemDataBodySection:
		o.cover("item:body-section")
		if it.Section != nil {
			for _, p := range it.Section.Part {
				o.int64f(site+".section.part", int64(p))
			}
			if it.Section.Partial != nil {
				o.int64f(site+".section.partial", it.Section.Partial.Offset)
			}
			o.note("%s BODY[...] section=%+v", site, *it.Section)
		}
		o.readLiteral(site+".BodySection", it.Literal)
	case imapclient.FetchItemDataBinarySection:
		o.cover("item:binary-section")
		if it.Section != nil {
			for _, p := range it.Section.Part {
				o.int64f(site+".section.part", int64(p))
			}
			o.note("%s BINARY[...] section=%+v", site, *it.Section)
		}
		o.readLiteral(site+".BinarySection", it.Literal)
	case imapclient.FetchItemDataFlags:
		o.cover("item:flags")
		o.note("%s FLAGS %q", site, it.Flags)
	case imapclient.FetchItemDataEnvelope:
		o.cover("item:envelope")
		o.checkEnvelope(site, it.Envelope)
	case imapclient.FetchItemDataInternalDate:
		o.cover("item:internaldate")
		o.note("%s INTERNALDATE %v", site, it.Time)
	case imapclient.FetchItemDataRFC822Size:
		o.cover("item:rfc822size")
		o.note("%s RFC822.SIZE %d", site, it.Size)
		o.int64f(site+".rfc822size", it.Size)
	case imapclient.FetchItemDataUID:
		o.cover("item:uid")
		o.note("%s UID %d", site, it.UID)
		o.num(site+".uid", uint64(it.UID))
		if it.UID == 0 {
			o.viol("zero-uid-delivered:fetch", site+": FETCH item UID 0 delivered")
		}
	case imapclient.FetchItemDataBodyStructure:
		o.cover("item:bodystructure")
		o.checkBody(site, it.BodyStructure)
	case imapclient.FetchItemDataBinarySectionSize:
		o.cover("item:binary-size")
		o.note("%s BINARY.SIZE part=%v size=%d", site, it.Part, it.Size)
		o.num(site+".binsize", uint64(it.Size))
	case imapclient.FetchItemDataModSeq:
		o.cover("item:modseq")
		o.note("%s MODSEQ %d", site, it.ModSeq)
		o.num(site+".modseq", it.ModSeq)
	default:
		o.note("%s unknown item %T", site, item)
	}
}

func (o *obs) checkBuffer(site string, b *imapclient.FetchMessageBuffer) {
	if b == nil {
		return
	}
	o.note("%s buffer seq=%d uid=%d flags=%q size=%d modseq=%d sections=%d binsections=%d binsizes=%d", site, b.SeqNum, b.UID, b.Flags, b.RFC822Size, b.ModSeq, len(b.BodySection), len(b.BinarySection), len(b.BinarySectionSize))
	o.int64f(site+".rfc822size", b.RFC822Size)
	o.num(site+".uid", uint64(b.UID))
	o.num(site+".modseq", b.ModSeq)
	if b.Envelope != nil {
		o.cover("item:envelope")
		o.checkEnvelope(site, b.Envelope)
	}
	if b.BodyStructure != nil {
		o.cover("item:bodystructure")
		o.checkBody(site, b.BodyStructure)
	}
	for s, data := range b.BodySection {
		o.cover("item:body-section")
		o.note("%s BODY[...] %+v = %d bytes", site, *s, len(data))
	}
	for s, data := range b.BinarySection {
		o.cover("item:binary-section")
		o.note("%s BINARY[...] %+v = %d bytes", site, *s, len(data))
	}
	for _, s := range b.BinarySectionSize {
		o.cover("item:binary-size")
		o.num(site+".binsize", uint64(s.Size))
	}
}

func (o *obs) rawDrainItems(msg *imapclient.FetchMessageData) {
	ch := unexported(msg, "items").Interface().(chan imapclient.FetchItemData)
	for it := range ch {
		switch it := it.(type) {
		case imapclient.FetchItemDataBodySection:
			if it.Literal != nil {
				io.Copy(io.Discard, it.Literal)
			}
		case imapclient.FetchItemDataBinarySection:
			if it.Literal != nil {
				io.Copy(io.Discard, it.Literal)
			}
		}
	}
}

func (o *obs) rawDrainCmd(cmd *imapclient.FetchCommand) {
	// the message the API was working on when it panicked is no longer in the channel
	if prev := unexported(cmd, "prev").Interface().(*imapclient.FetchMessageData); prev != nil {
		o.rawDrainItems(prev)
	}
	ch := unexported(cmd, "msgs").Interface().(chan *imapclient.FetchMessageData)
	for msg := range ch {
		o.fetchSeq("cmd(raw)", msg.SeqNum)
		o.rawDrainItems(msg)
	}
}

const (
	styleManual = iota
	styleCollect
	styleClose
)

// consumeMsg consumes one message through the public API; when the API itself panics (and can
// then never advance again) the rest is drained through the channel so that the reader is not
// left blocked (that would turn one defect into a hang of the harness).
func (o *obs) consumeMsg(via string, msg *imapclient.FetchMessageData, style int) {
	o.fetchSeq(via, msg.SeqNum)
	site := fmt.Sprintf("%s FETCH %d", via, msg.SeqNum)
	switch style {
	case styleCollect:
		var buf *imapclient.FetchMessageBuffer
		var err error
		if !o.try("FetchMessageData.Collect", func() { buf, err = msg.Collect() }) {
			o.rawDrainItems(msg)
			return
		}
		o.note("%s Collect err=%v", site, err)
		o.checkBuffer(site, buf)
	default:
		for {
			var item imapclient.FetchItemData
			if !o.try("FetchMessageData.Next", func() { item = msg.Next() }) {
				o.rawDrainItems(msg)
				return
			}
			if item == nil {
				return
			}
			o.checkItem(site, item)
		}
	}
}

func (o *obs) consumeFetchCmd(name string, cmd *imapclient.FetchCommand, style int) {
	switch style {
	case styleCollect:
		var l []*imapclient.FetchMessageBuffer
		var err error
		if !o.try("FetchCommand.Collect", func() { l, err = cmd.Collect() }) {
			o.rawDrainCmd(cmd)
		}
		o.note("%s.Collect() -> %d messages err=%v", name, len(l), errStr(err))
		for _, b := range l {
			if b != nil {
				o.fetchSeq("cmd", b.SeqNum)
				o.checkBuffer(fmt.Sprintf("%s FETCH %d", name, b.SeqNum), b)
			}
		}
	case styleManual:
		for {
			var msg *imapclient.FetchMessageData
			if !o.try("FetchCommand.Next", func() { msg = cmd.Next() }) {
				o.rawDrainCmd(cmd)
				break
			}
			if msg == nil {
				break
			}
			o.consumeMsg(name, msg, styleManual)
		}
	case styleClose:
		if !o.try("FetchCommand.Close", func() { cmd.Close() }) {
			o.rawDrainCmd(cmd)
		}
	}
	o.try("FetchCommand.Close", func() {
		err := cmd.Close()
		o.note("%s.Close() = %v", name, errStr(err))
		o.readerPanic(err)
	})
}

func errStr(err error) string {
	if err == nil {
		return "<nil>"
	}
	s := err.Error()
	if i := strings.Index(s, "\n"); i >= 0 {
		s = s[:i] + " [+stack]"
	}
	if len(s) > 200 {
		s = s[:200] + "..."
	}
	return s
}

// readerPanic recognises a recovered reader panic in an error handed out by Close/Wait.
func (o *obs) readerPanic(err error) {
	if err == nil {
		return
	}
	s := err.Error()
	i := strings.Index(s, "panic reading response")
	if i < 0 {
		return
	}
	msg := s[i:]
	if j := strings.Index(msg, "\n"); j >= 0 {
		msg = msg[:j]
	}
	fn := imapFrame(s)
	o.viol(panicKey("panic:reader:", fn, msg, "reader"), fmt.Sprintf("%s (in %s)", msg, fn))
}

// ---- handlers ----

func (o *obs) handlers(style int) *imapclient.UnilateralDataHandler {
	return &imapclient.UnilateralDataHandler{
		Expunge: func(seqNum uint32) {
			o.cover("handler:expunge")
			o.note("handler Expunge(%d)", seqNum)
			o.num("handler.expunge", uint64(seqNum))
			if seqNum == 0 {
				o.viol("zero-seqnum-delivered:expunge", "UnilateralDataHandler.Expunge(0) called")
			}
		},
		Mailbox: func(data *imapclient.UnilateralDataMailbox) {
			o.cover("handler:mailbox")
			if data == nil {
				o.viol("nil-data-delivered:handler-mailbox", "Mailbox handler called with nil")
				return
			}
			if data.NumMessages != nil {
				o.num("handler.exists", uint64(*data.NumMessages))
				o.note("handler Mailbox NumMessages=%d", *data.NumMessages)
			}
			o.note("handler Mailbox flags=%q permflags=%q", data.Flags, data.PermanentFlags)
		},
		Fetch: func(msg *imapclient.FetchMessageData) {
			// runs in a goroutine started by the library: a panic here would be fatal, so
			// everything is inside try()
			o.consumeMsg("handler", msg, style)
		},
		Metadata: func(mailbox string, entries []string) {
			o.cover("handler:metadata")
			o.note("handler Metadata %s %q", q(mailbox), entries)
		},
	}
}

// ---- one run ----

type metrics struct {
	TotalAlloc uint64  `json:"total_alloc"`
	Mallocs    uint64  `json:"mallocs"`
	ConnReads  int64   `json:"conn_reads"`
	Deadlines  int64   `json:"deadline_calls"`
	Consumed   int64   `json:"bytes_consumed"`
	CPU        float64 `json:"cpu_s"`
	Wall       float64 `json:"wall_s"`
}

func newObs(input []byte, variant int, verbose bool) *obs {
	up := bytes.ToUpper(input)
	return &obs{input: input, variant: variant, verbose: verbose, cov: map[string]int64{}, isESearch: bytes.Contains(up, []byte("ESEARCH"))}
}

func quiesce(base int) bool {
	for i := 0; i < 200; i++ {
		if runtime.NumGoroutine() <= base {
			return true
		}
		runtime.Gosched()
	}
	deadline := time.Now().Add(10 * time.Second)
	for runtime.NumGoroutine() > base {
		if time.Now().After(deadline) {
			return false
		}
		time.Sleep(100 * time.Microsecond)
	}
	return true
}

func runVariant(input []byte, variant int, verbose, enumHuge bool) *obs {
	o := newObs(input, variant, verbose)
	o.enumHuge = enumHuge
	base := runtime.NumGoroutine()
	conn := newFakeConn()
	lastConn.Store(conn)
	opts := &imapclient.Options{}
	// unilateral FETCH data: item by item (Next + literal Read) under cmdsA / unsol / greet, Collect under cmdsB / idle
	hstyle := styleManual
	if variant == vCmdsB || variant == vIdle {
		hstyle = styleCollect
	}
	if variant != vBare {
		opts.UnilateralDataHandler = o.handlers(hstyle)
	}
	c := imapclient.New(conn, opts)

	if variant == vGreet {
		conn.feed(input)
		conn.feedEOF()
		o.try("Client.WaitGreeting", func() {
			err := c.WaitGreeting()
			o.note("WaitGreeting() = %v", errStr(err))
			o.readerPanic(err)
		})
		conn.waitDrained()
		o.closeClient(c)
		o.finish(c, conn)
		o.settle(base)
		return o
	}

	conn.feed([]byte(greeting))
	if err := c.WaitGreeting(); err != nil {
		panic("harness: greeting refused: " + err.Error())
	}
	sel := c.Select("INBOX", nil)
	conn.feed([]byte(selectReply))
	if _, err := sel.Wait(); err != nil {
		panic("harness: select refused: " + err.Error())
	}

	var wg sync.WaitGroup
	var after []func()
	switch variant {
	case vCmdsA, vCmdsB:
		after = o.issueCommands(c, variant == vCmdsB, &wg)
	case vIdle:
		var idle *imapclient.IdleCommand
		var ierr error
		done := make(chan struct{})
		go func() {
			defer close(done)
			o.try("Client.Idle", func() { idle, ierr = c.Idle() })
		}()
		if conn.waitWritten([]byte("IDLE\r\n")) {
			conn.feed([]byte("+ idling\r\n"))
		}
		<-done
		if ierr != nil || idle == nil {
			panic(fmt.Sprintf("harness: IDLE refused: %v", ierr))
		}
		after = append(after, func() {
			o.try("IdleCommand.Close", func() { o.note("IdleCommand.Close() = %v", errStr(idle.Close())) })
			o.try("IdleCommand.Wait", func() {
				err := idle.Wait()
				o.note("IdleCommand.Wait() = %v", errStr(err))
				o.readerPanic(err)
			})
		})
	}

	conn.feed(input)
	conn.feedEOF()
	conn.waitDrained()
	o.closeClient(c)
	wg.Wait()
	for _, f := range after {
		f()
	}
	o.finish(c, conn)
	o.settle(base)
	return o
}

func (o *obs) closeClient(c *imapclient.Client) {
	var cerr error
	o.try("Client.Close", func() { cerr = c.Close() })
	o.closeErr = errStr(cerr)
	o.note("Client.Close() = %v", o.closeErr)
	o.readerPanic(cerr)
}

func (o *obs) settle(base int) {
	if !quiesce(base) {
		o.mu.Lock()
		o.cov["goroutines-not-quiesced"]++
		o.mu.Unlock()
		o.note("goroutines did not return to the baseline (%d > %d)", runtime.NumGoroutine(), base)
	}
	o.provenance()
	if len(o.shortLiterals) > 0 && o.closeErr == "<nil>" {
		o.viol("malformed-literal-delivered:size-mismatch", o.shortLiterals[0]+", and Client.Close() reports no error")
	}
}

func (o *obs) finish(c *imapclient.Client, conn *fakeConn) {
	o.try("Client.Mailbox", func() {
		mb := c.Mailbox()
		if mb != nil {
			o.note("Mailbox() = {Name:%s NumMessages:%d Flags:%q PermanentFlags:%q}", q(mb.Name), mb.NumMessages, mb.Flags, mb.PermanentFlags)
		} else {
			o.note("Mailbox() = nil")
		}
	})
	o.try("Client.State", func() { o.note("State() = %v", c.State()) })
	o.try("Client.Caps", func() {
		// Once the connection has ended, Client.WaitGreeting selects between two channels that are
		// both closed (greeting received, decoder finished), so Caps() - which starts with
		// WaitGreeting - answers nil instead of the set it holds on about every second call, and
		// formats the decoder's error (as long as the offending token) when it does. That coin is
		// outside C11 (nil is a documented answer; nothing panics or grows), and asking again would
		// only toss it again. What this harness adds on top is therefore kept O(1) whichever way it
		// falls (capsAccessors), and the growth rule (growth.go) judges floors over repeated
		// measurements rather than one run.
		caps := c.Caps()
		o.capsAccessors("Caps()", caps)
	})
	o.try("Client.Close", func() {
		err := c.Close()
		o.note("Client.Close() again = %v", errStr(err))
		o.readerPanic(err)
	})
}

// capsAccessors invokes every accessor of a capability set. The harness itself allocates O(1)
// here whatever the size of the set (it counts the members and keeps the 13 smallest names for
// the trace), so that the growth measurements see the library's cost of the accessors only.
func (o *obs) capsAccessors(site string, caps imap.CapSet) {
	var names []string
	n := 0
	for k := range caps {
		n++
		if len(names) < 13 {
			names = append(names, string(k))
			sort.Strings(names)
		} else if string(k) < names[12] {
			names[12] = string(k)
			sort.Strings(names)
		}
	}
	_ = caps.Has(imap.CapIMAP4rev2)
	_ = caps.Has(imap.CapAppendLimit)
	lim, ok := caps.AppendLimit()
	if lim != nil && ok {
		o.num("caps.appendlimit", uint64(*lim))
	}
	_ = caps.AuthMechanisms()
	_ = caps.QuotaResourceTypes()
	_ = caps.ThreadAlgorithms()
	if n > 12 {
		o.note("%s = %d capabilities", site, n)
	} else {
		o.note("%s = %q", site, names)
	}
}

// provenance: every number handed to the caller must be a number the server wrote. A value that
// appears nowhere in the stream is an overflowed / mangled number delivered as data.
func (o *obs) provenance() {
	if len(o.nums) == 0 {
		return
	}
	runs := map[string]bool{}
	in := o.input
	for i := 0; i < len(in); {
		if in[i] < '0' || in[i] > '9' {
			i++
			continue
		}
		j := i
		for j < len(in) && in[j] >= '0' && in[j] <= '9' {
			j++
		}
		s := strings.TrimLeft(string(in[i:j]), "0")
		runs[s] = true
		i = j
	}
	for _, n := range o.nums {
		if n.v == 0 {
			continue
		}
		if !runs[fmt.Sprint(n.v)] {
			o.viol("malformed-number-delivered:not-in-stream", fmt.Sprintf("%s = %d, a number that occurs nowhere in the server's bytes", n.site, n.v))
		}
	}
}

// ---- pending commands of every kind, and every accessor of what they hand back ----

func (o *obs) issueCommands(c *imapclient.Client, uidFirst bool, wg *sync.WaitGroup) (after []func()) {
	allSeq := imap.SeqSet{{Start: 1, Stop: 0}}
	allUID := imap.UIDSet{{Start: 1, Stop: 0}}
	var set1, set2 imap.NumSet = allSeq, allUID
	if uidFirst {
		set1, set2 = allUID, allSeq
	}
	fopts := &imap.FetchOptions{
		UID: true, Flags: true, Envelope: true, InternalDate: true, RFC822Size: true, ModSeq: true,
		BodyStructure:     &imap.FetchItemBodyStructure{Extended: true},
		BodySection:       []*imap.FetchItemBodySection{{}, {Specifier: imap.PartSpecifierHeader, HeaderFields: []string{"A"}}},
		BinarySection:     []*imap.FetchItemBinarySection{{Part: []int{1}}},
		BinarySectionSize: []*imap.FetchItemBinarySectionSize{{Part: []int{1}}},
	}
	style1, style2, style3 := styleCollect, styleManual, styleClose
	if uidFirst {
		style1, style2, style3 = styleManual, styleClose, styleCollect
	}
	spawn := func(f func()) {
		wg.Add(1)
		go func() {
			defer wg.Done()
			f()
		}()
	}

	fetch1 := c.Fetch(set1, fopts)                                                                           // T2
	fetch2 := c.Fetch(set2, fopts)                                                                           // T3
	store := c.Store(set1, &imap.StoreFlags{Op: imap.StoreFlagsAdd, Flags: []imap.Flag{imap.FlagSeen}}, nil) // T4
	spawn(func() { o.consumeFetchCmd("T2", fetch1, style1) })
	spawn(func() { o.consumeFetchCmd("T3", fetch2, style2) })
	spawn(func() { o.consumeFetchCmd("T4", store, style3) })

	crit := &imap.SearchCriteria{}
	sopts := &imap.SearchOptions{ReturnAll: true, ReturnMin: true, ReturnMax: true, ReturnCount: true}
	var search1, search2 *imapclient.SearchCommand
	if uidFirst {
		search1, search2 = c.UIDSearch(crit, sopts), c.Search(crit, sopts) // T5 T6
	} else {
		search1, search2 = c.Search(crit, sopts), c.UIDSearch(crit, sopts)
	}
	sortOpts := &imapclient.SortOptions{SearchCriteria: crit, SortCriteria: []imapclient.SortCriterion{{Key: imapclient.SortKeyDate, Reverse: true}}}
	thrOpts := &imapclient.ThreadOptions{Algorithm: imap.ThreadAlgorithm("REFERENCES"), SearchCriteria: crit}
	var sortc *imapclient.SortCommand
	var thread *imapclient.ThreadCommand
	if uidFirst {
		sortc, thread = c.UIDSort(sortOpts), c.UIDThread(thrOpts) // T7 T8
	} else {
		sortc, thread = c.Sort(sortOpts), c.Thread(thrOpts)
	}
	quota := c.GetQuota("r")             // T9
	quotaRoot := c.GetQuotaRoot("INBOX") // T10
	maxSize := uint32(1024)
	meta := c.GetMetadata("INBOX", []string{"/private/comment"}, &imapclient.GetMetadataOptions{MaxSize: &maxSize, Depth: imapclient.GetMetadataDepthInfinity}) // T11
	lopts := &imap.ListOptions{ReturnSubscribed: true, ReturnChildren: true, ReturnSpecialUse: true}
	if !uidFirst {
		lopts.ReturnStatus = &imap.StatusOptions{NumMessages: true, UIDNext: true}
	}
	list := c.List("", "*", lopts)                                                                                                                                                                                     // T12
	status := c.Status("INBOX", &imap.StatusOptions{NumMessages: true, UIDNext: true, UIDValidity: true, NumUnseen: true, NumDeleted: true, Size: true, AppendLimit: true, DeletedStorage: true, HighestModSeq: true}) // T13
	sel := c.Select("INBOX", &imap.SelectOptions{CondStore: true})                                                                                                                                                     // T14
	copyc := c.Copy(set1, "dest")                                                                                                                                                                                      // T15
	move := c.Move(set2, "dest")                                                                                                                                                                                       // T16
	app := c.Append("INBOX", 3, nil)                                                                                                                                                                                   // T17
	o.try("AppendCommand.Write", func() {
		_, err := app.Write([]byte("abc"))
		err2 := app.Close()
		o.note("AppendCommand.Write/Close = %v %v", errStr(err), errStr(err2))
	})
	expunge := c.Expunge()                                   // T18
	ns := c.Namespace()                                      // T19
	capc := c.Capability()                                   // T20
	enable := c.Enable(imap.CapUTF8Accept, imap.CapMetadata) // T21
	noop := c.Noop()                                         // T22

	// consumers of the streaming commands run while the reader runs
	var listData []*imap.ListData
	spawn(func() {
		o.try("ListCommand.Collect", func() {
			var err error
			listData, err = list.Collect()
			o.note("T12 ListCommand.Collect() -> %d mailboxes err=%v", len(listData), errStr(err))
			o.readerPanic(err)
		})
	})
	spawn(func() {
		ch := unexported(expunge, "seqNums").Interface().(chan uint32)
		n := 0
		for v := range ch {
			n++
			o.cover("expunge:cmd")
			o.num("expunge.cmd", uint64(v))
			o.note("T18 ExpungeCommand delivered %d", v)
			if v == 0 {
				o.viol("zero-seqnum-delivered:expunge", "ExpungeCommand channel delivered sequence number 0 (Next()/Collect() treat 0 as end of data)")
			}
		}
		o.try("ExpungeCommand.Collect", func() {
			l, err := expunge.Collect()
			o.note("T18 ExpungeCommand.Collect() after drain -> %v err=%v (%d values seen on the channel)", l, errStr(err), n)
			o.readerPanic(err)
		})
	})

	after = append(after, func() {
		for i, sc := range []*imapclient.SearchCommand{search1, search2} {
			name := fmt.Sprintf("T%d SearchCommand", 5+i)
			o.try("SearchCommand.Wait", func() {
				data, err := sc.Wait()
				o.readerPanic(err)
				if data == nil {
					o.note("%s.Wait() = nil, %v", name, errStr(err))
					return
				}
				o.note("%s.Wait() = {UID:%v Min:%d Max:%d Count:%d ModSeq:%d} err=%v", name, data.UID, data.Min, data.Max, data.Count, data.ModSeq, errStr(err))
				o.num("search.min", uint64(data.Min))
				o.num("search.max", uint64(data.Max))
				o.num("search.count", uint64(data.Count))
				o.num("search.modseq", data.ModSeq)
				if data.Min != 0 || data.Max != 0 || data.Count != 0 || data.ModSeq != 0 || len(ranges(data.All)) > 0 {
					o.cover("search:data")
				}
				dyn, str := o.checkNumSet(name+".All", data.All)
				if dyn {
					// what the documented accessors do with it
					var cons []string
					for _, acc := range []struct {
						n string
						f func()
					}{{"AllSeqNums", func() { data.AllSeqNums() }}, {"AllUIDs", func() { data.AllUIDs() }}} {
						func() {
							defer func() {
								if r := recover(); r != nil {
									cons = append(cons, fmt.Sprintf("%s() panics: %v", acc.n, r))
								}
							}()
							acc.f()
						}()
					}
					key := "zero-seqnum-delivered:search"
					what := fmt.Sprintf("%s.All = %q is a dynamic set (a SEARCH result of 0 is stored as \"*\")", name, str)
					if o.isESearch {
						key = "dynamic-set-delivered:esearch"
						what = fmt.Sprintf("%s.All = %q: an open-ended set was delivered as an ESEARCH result", name, str)
					}
					o.viol(key, what+"; "+strings.Join(cons, "; "))
					return
				}
				if o.hugeSet(data.All) && !o.enumHuge {
					return
				}
				o.try("SearchData.AllSeqNums", func() { o.note("%s AllSeqNums() -> %d", name, len(data.AllSeqNums())) })
				o.try("SearchData.AllUIDs", func() { o.note("%s AllUIDs() -> %d", name, len(data.AllUIDs())) })
			})
		}
		o.try("SortCommand.Wait", func() {
			nums, err := sortc.Wait()
			o.readerPanic(err)
			o.note("T7 SortCommand.Wait() = %d numbers %v err=%v", len(nums), head(nums), errStr(err))
			for _, n := range nums {
				o.cover("sort:num")
				o.num("sort.num", uint64(n))
				if n == 0 {
					o.viol("zero-seqnum-delivered:sort", "SORT result contains message number 0")
				}
			}
		})
		o.try("ThreadCommand.Wait", func() {
			data, err := thread.Wait()
			o.readerPanic(err)
			depth, nodes, zero := threadStats(data, o)
			o.note("T8 ThreadCommand.Wait() = %d threads depth=%d nodes=%d err=%v", len(data), depth, nodes, errStr(err))
			if nodes > 0 {
				o.cover("thread:data")
			}
			if zero {
				o.viol("zero-seqnum-delivered:thread", "THREAD result contains message number 0")
			}
			if depth > maxLegitDepth {
				o.viol("unbounded-recursion:thread", fmt.Sprintf("a thread tree nested %d deep was delivered (decoder cap is %d)", depth, maxLegitDepth))
			}
		})
		o.try("GetQuotaCommand.Wait", func() {
			data, err := quota.Wait()
			o.readerPanic(err)
			o.note("T9 GetQuotaCommand.Wait() = %v err=%v", data != nil, errStr(err))
			if data != nil {
				o.quota("T9", *data)
			}
		})
		o.try("GetQuotaRootCommand.Wait", func() {
			data, err := quotaRoot.Wait()
			o.readerPanic(err)
			o.note("T10 GetQuotaRootCommand.Wait() = %d err=%v", len(data), errStr(err))
			for _, d := range data {
				o.quota("T10", d)
			}
		})
		o.try("GetMetadataCommand.Wait", func() {
			data, err := meta.Wait()
			o.readerPanic(err)
			if data != nil {
				for k, v := range data.Entries {
					o.cover("metadata:entry")
					if v != nil {
						o.note("T11 metadata %s = %d bytes", q(k), len(*v))
					} else {
						o.note("T11 metadata %s = NIL", q(k))
					}
				}
				o.note("T11 GetMetadataCommand.Wait() = mailbox %s, %d entries err=%v", q(data.Mailbox), len(data.Entries), errStr(err))
			}
		})
		for _, d := range listData {
			o.listData("T12", d)
		}
		o.try("StatusCommand.Wait", func() {
			data, err := status.Wait()
			o.readerPanic(err)
			o.note("T13 StatusCommand.Wait() err=%v", errStr(err))
			o.statusData("T13", data)
		})
		o.try("SelectCommand.Wait", func() {
			data, err := sel.Wait()
			o.readerPanic(err)
			if data != nil {
				o.note("T14 SelectCommand.Wait() = {Flags:%q PermanentFlags:%q NumMessages:%d UIDNext:%d UIDValidity:%d HighestModSeq:%d List:%v} err=%v", data.Flags, data.PermanentFlags, data.NumMessages, data.UIDNext, data.UIDValidity, data.HighestModSeq, data.List != nil, errStr(err))
				o.num("select.exists", uint64(data.NumMessages))
				o.num("select.uidnext", uint64(data.UIDNext))
				o.num("select.uidvalidity", uint64(data.UIDValidity))
				o.num("select.highestmodseq", data.HighestModSeq)
				if data.List != nil {
					o.listData("T14", data.List)
				}
			}
		})
		o.try("CopyCommand.Wait", func() {
			data, err := copyc.Wait()
			o.readerPanic(err)
			o.note("T15 CopyCommand.Wait() err=%v", errStr(err))
			if data != nil {
				o.num("copyuid.uidvalidity", uint64(data.UIDValidity))
				o.copySets("T15 CopyData", data.SourceUIDs, data.DestUIDs)
			}
		})
		o.try("MoveCommand.Wait", func() {
			data, err := move.Wait()
			o.readerPanic(err)
			o.note("T16 MoveCommand.Wait() = %v err=%v", data != nil, errStr(err))
			if data != nil {
				o.num("copyuid.uidvalidity", uint64(data.UIDValidity))
				o.copySets("T16 MoveData", data.SourceUIDs, data.DestUIDs)
			}
		})
		o.try("AppendCommand.Wait", func() {
			data, err := app.Wait()
			o.readerPanic(err)
			if data != nil {
				o.note("T17 AppendCommand.Wait() = {UID:%d UIDValidity:%d} err=%v", data.UID, data.UIDValidity, errStr(err))
				o.num("appenduid.uid", uint64(data.UID))
				o.num("appenduid.uidvalidity", uint64(data.UIDValidity))
				if data.UID != 0 {
					o.cover("appenduid")
				}
			}
		})
		o.try("NamespaceCommand.Wait", func() {
			data, err := ns.Wait()
			o.readerPanic(err)
			if data != nil {
				n := len(data.Personal) + len(data.Other) + len(data.Shared)
				if n > 0 {
					o.cover("namespace:data")
				}
				o.note("T19 NamespaceCommand.Wait() = %d/%d/%d descriptors err=%v", len(data.Personal), len(data.Other), len(data.Shared), errStr(err))
			}
		})
		o.try("CapabilityCommand.Wait", func() {
			caps, err := capc.Wait()
			o.readerPanic(err)
			if caps != nil {
				o.cover("capability:data")
				o.capsAccessors("T20 CapabilityCommand caps", caps)
			}
			o.note("T20 CapabilityCommand.Wait() = %d caps err=%v", len(caps), errStr(err))
		})
		o.try("EnableCommand.Wait", func() {
			data, err := enable.Wait()
			o.readerPanic(err)
			if data != nil {
				if len(data.Caps) > 0 {
					o.cover("enabled:data")
					o.capsAccessors("T21 EnableData.Caps", data.Caps)
				}
				o.note("T21 EnableCommand.Wait() = %d caps err=%v", len(data.Caps), errStr(err))
			}
		})
		o.try("Command.Wait", func() {
			err := noop.Wait()
			o.readerPanic(err)
			o.note("T22 Noop.Wait() = %v", errStr(err))
		})
	})
	return after
}

func head(n []uint32) []uint32 {
	if len(n) > 8 {
		return n[:8]
	}
	return n
}

func (o *obs) hugeSet(ns imap.NumSet) bool {
	var card uint64
	for _, r := range ranges(ns) {
		if r[0] != 0 && r[1] != 0 && r[1] >= r[0] {
			card += uint64(r[1]-r[0]) + 1
		}
	}
	return card > enumLimit
}

func (o *obs) copySets(site string, src, dst imap.NumSet) {
	if src != nil || dst != nil {
		if len(ranges(src))+len(ranges(dst)) > 0 {
			o.cover("copyuid")
		}
	}
	for _, x := range []struct {
		n string
		s imap.NumSet
	}{{"SourceUIDs", src}, {"DestUIDs", dst}} {
		if x.s == nil {
			continue
		}
		if dyn, str := o.checkNumSet(site+"."+x.n, x.s); dyn {
			o.viol("dynamic-set-delivered:copyuid", fmt.Sprintf("%s.%s = %q: an open-ended set was delivered as a COPYUID result", site, x.n, str))
		}
	}
}

func threadStats(data []imapclient.ThreadData, o *obs) (depth, nodes int, zero bool) {
	type ent struct {
		t *imapclient.ThreadData
		d int
	}
	var stack []ent
	for i := range data {
		stack = append(stack, ent{&data[i], 1})
	}
	for len(stack) > 0 {
		e := stack[len(stack)-1]
		stack = stack[:len(stack)-1]
		nodes++
		if e.d > depth {
			depth = e.d
		}
		for _, n := range e.t.Chain {
			o.num("thread.num", uint64(n))
			if n == 0 {
				zero = true
			}
		}
		for i := range e.t.SubThreads {
			stack = append(stack, ent{&e.t.SubThreads[i], e.d + 1})
		}
	}
	return
}

func (o *obs) quota(site string, d imapclient.QuotaData) {
	o.cover("quota:data")
	for k, r := range d.Resources {
		o.note("%s quota root=%s %s usage=%d limit=%d", site, q(d.Root), q(string(k)), r.Usage, r.Limit)
		o.int64f("quota.usage", r.Usage)
		o.int64f("quota.limit", r.Limit)
	}
}

func (o *obs) listData(site string, d *imap.ListData) {
	if d == nil {
		o.viol("nil-data-delivered:list", site+": nil *ListData delivered")
		return
	}
	o.cover("list:data")
	o.note("%s LIST attrs=%q delim=%q mailbox=%s childinfo=%v oldname=%s status=%v", site, d.Attrs, d.Delim, q(d.Mailbox), d.ChildInfo != nil, q(d.OldName), d.Status != nil)
	if d.Status != nil {
		o.statusData(site+" LIST-STATUS", d.Status)
	}
}

func (o *obs) statusData(site string, d *imap.StatusData) {
	if d == nil {
		return
	}
	p32 := func(n string, p *uint32) {
		if p != nil {
			o.cover("status:item")
			o.note("%s STATUS %s=%d", site, n, *p)
			if n == "APPENDLIMIT" && *p == ^uint32(0) {
				return // APPENDLIMIT NIL is represented as the maximum
			}
			if *p == 0 {
				if !bytes.Contains(o.input, []byte("0")) {
					o.viol("malformed-number-delivered:not-in-stream", fmt.Sprintf("%s STATUS %s = 0 delivered although the server never wrote 0", site, n))
				}
				return
			}
			o.num("status."+n, uint64(*p))
		}
	}
	p64 := func(n string, p *int64) {
		if p != nil {
			o.cover("status:item")
			o.note("%s STATUS %s=%d", site, n, *p)
			o.int64f("status."+n, *p)
		}
	}
	p32("MESSAGES", d.NumMessages)
	p32("UNSEEN", d.NumUnseen)
	p32("DELETED", d.NumDeleted)
	p32("APPENDLIMIT", d.AppendLimit)
	p64("SIZE", d.Size)
	p64("DELETED-STORAGE", d.DeletedStorage)
	o.num("status.uidnext", uint64(d.UIDNext))
	o.num("status.uidvalidity", uint64(d.UIDValidity))
	o.num("status.highestmodseq", d.HighestModSeq)
	o.note("%s STATUS mailbox=%s uidnext=%d uidvalidity=%d highestmodseq=%d", site, q(d.Mailbox), d.UIDNext, d.UIDValidity, d.HighestModSeq)
}
