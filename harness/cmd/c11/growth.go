package main

import (
	"fmt"
	"os"
	"strings"
	"sync"
	"sync/atomic"
	"time"

	"github.com/emersion/go-imap/v2/verif/vk"
)

// ---- (v) growth families: resource use as a function of n ----

type growthResult struct {
	Family   string
	Summary  interface{}
	Complete bool
}

var growthRuns atomic.Int64

type point struct {
	N        int     `json:"n"`
	Bytes    int     `json:"input_bytes"`
	Alloc    uint64  `json:"total_alloc"`
	Mallocs  uint64  `json:"mallocs"`
	Reads    int64   `json:"conn_reads"`
	Deadline int64   `json:"deadline_calls"`
	CPU      float64 `json:"cpu_s"`
	MaxDepth int     `json:"max_depth_delivered,omitempty"`
	Outcome  string  `json:"outcome"`
}

const (
	allocRatioMax = 2.5
	cpuRatioMin   = 6.0
)

// measure runs one (family, n, variant) in a fresh worker.
func measure(g growth, n int, variant string, budget time.Duration) (pt point, out workerOut) {
	in := g.gen(n)
	growthRuns.Add(1)
	out = runWorker([]job{{id: 0, mask: variantMask(variant), flags: fMeasure, input: in}}, workerOpts{budget: budget, watchdog: int(budget/time.Second) + 30})
	pt = point{N: n, Bytes: len(in)}
	if out.done == nil {
		kind, _, msg := classifyDeath(out.stderr, out.timedOut)
		pt.Outcome = kind + ": " + msg
		return
	}
	pt.Outcome = "ok"
	for _, r := range out.reports {
		if r.Metrics != nil {
			pt.Alloc, pt.Mallocs, pt.Reads, pt.Deadline, pt.CPU = r.Metrics.TotalAlloc, r.Metrics.Mallocs, r.Metrics.ConnReads, r.Metrics.Deadlines, r.Metrics.CPU
		}
		pt.MaxDepth = r.MaxDepth
	}
	return
}

func ratio(a, b float64) float64 {
	if a <= 0 {
		return 0
	}
	return b / a
}

func growthKey(g growth, what string) string {
	if g.recursive {
		return "unbounded-recursion:" + g.prod
	}
	return what + ":" + g.prod
}

func runGrowth(thorough bool, res chan<- growthResult) {
	fams := growthFamilies()
	sizes := []int{1 << 10, 2 << 10, 4 << 10, 8 << 10, 16 << 10, 32 << 10, 64 << 10}
	budget := 40 * time.Second
	par := 4
	if thorough {
		sizes = append(sizes, 128<<10, 256<<10, 512<<10)
		budget = 400 * time.Second
		par = 6
	}
	const probeN = 512 << 10
	type task struct {
		g       growth
		variant string
	}
	var tasks []task
	for _, g := range fams {
		tasks = append(tasks, task{g, "cmdsA"}, task{g, "unsol"})
	}
	var mu sync.Mutex
	vk.ParallelW(par, len(tasks), func(i int) {
		g, variant := tasks[i].g, tasks[i].variant
		name := g.name + "@" + variant
		var pts []point
		complete := true
		violated := ""
		report := func(key, what string, n int) {
			if violated != "" {
				return
			}
			violated = key
			addCandidate(candidate{Key: key, Input: g.gen(min(n, 64)), Variant: variant, What: what, Family: "growth", GrowthF: name, GrowthN: n})
		}
		for _, n := range sizes {
			pt, out := measure(g, n, variant, budget)
			pts = append(pts, pt)
			for _, r := range out.reports {
				for _, f := range r.Findings {
					key := f.Key
					if g.recursive && (strings.HasPrefix(key, "unbounded-recursion:") || strings.HasPrefix(key, "fatal-panic:")) {
						key = growthKey(g, "")
					}
					report(key, fmt.Sprintf("family %s n=%d: %s", name, n, f.What), n)
				}
			}
			if out.done == nil {
				kind, fn, msg := classifyDeath(out.stderr, out.timedOut)
				switch kind {
				case "budget", "watchdog":
					if violated == "" {
						complete = false
					}
				case "stack-overflow":
					report(growthKey(g, "stack-overflow"), fmt.Sprintf("family %s n=%d (%d bytes): the worker died with a stack overflow (max stack 64 MiB; legitimate nesting is capped at %d): %s in %s", name, n, pt.Bytes, maxLegitDepth, msg, fn), n)
				case "out-of-memory":
					report(growthKey(g, "out-of-memory"), fmt.Sprintf("family %s n=%d (%d bytes): the worker ran out of memory under RLIMIT_AS 4 GiB: %s", name, n, pt.Bytes, msg), n)
				default:
					report(deathKey(kind, fn, msg, out.stderr), fmt.Sprintf("family %s n=%d: worker died: %s %s in %s", name, n, kind, msg, fn), n)
				}
				break
			}
			if len(pts) >= 2 && violated == "" {
				a, b := pts[len(pts)-2], pts[len(pts)-1]
				type ctr struct {
					name string
					r    float64
				}
				for _, c := range []ctr{
					{"allocated bytes (TotalAlloc)", ratio(float64(a.Alloc), float64(b.Alloc))},
					{"allocations (Mallocs)", ratio(float64(a.Mallocs), float64(b.Mallocs))},
					{"connection reads", ratio(float64(a.Reads), float64(b.Reads))},
					{"deadline calls (responses processed)", ratio(float64(a.Deadline), float64(b.Deadline))},
				} {
					if c.r > allocRatioMax {
						// re-measure both sizes twice; the smallest ratio counts
						best := c.r
						for k := 0; k < 2; k++ {
							a2, _ := measure(g, a.N, variant, budget)
							b2, _ := measure(g, b.N, variant, budget)
							var r2 float64
							switch c.name[:5] {
							case "alloc":
								if strings.HasPrefix(c.name, "allocated") {
									r2 = ratio(float64(a2.Alloc), float64(b2.Alloc))
								} else {
									r2 = ratio(float64(a2.Mallocs), float64(b2.Mallocs))
								}
							case "conne":
								r2 = ratio(float64(a2.Reads), float64(b2.Reads))
							default:
								r2 = ratio(float64(a2.Deadline), float64(b2.Deadline))
							}
							if a2.Outcome == "ok" && b2.Outcome == "ok" && r2 < best {
								best = r2
							}
						}
						if best > allocRatioMax {
							report(growthKey(g, "superlinear-alloc"), fmt.Sprintf("family %s: %s grows %.2fx from n=%d to n=%d (%d -> %d bytes allocated, %d -> %d allocations) for an input that doubles (%d -> %d bytes); limit %.1fx", name, c.name, best, a.N, b.N, a.Alloc, b.Alloc, a.Mallocs, b.Mallocs, a.Bytes, b.Bytes, allocRatioMax), b.N)
						}
					}
				}
				if r := ratio(a.CPU, b.CPU); r >= cpuRatioMin && b.CPU >= 0.5 && violated == "" {
					best := r
					for k := 0; k < 5; k++ {
						a2, _ := measure(g, a.N, variant, budget)
						b2, _ := measure(g, b.N, variant, budget)
						if r2 := ratio(a2.CPU, b2.CPU); a2.Outcome == "ok" && b2.Outcome == "ok" && r2 < best {
							best = r2
						}
					}
					if best >= cpuRatioMin {
						report(growthKey(g, "superlinear-cpu"), fmt.Sprintf("family %s: CPU time grows %.1fx from n=%d to n=%d (%.2fs -> %.2fs), smallest of 6 measurements", name, best, a.N, b.N, a.CPU, b.CPU), b.N)
					}
				}
			}
			if violated != "" {
				break
			}
		}
		var probe *point
		last := pts[len(pts)-1]
		if g.recursive && last.N < probeN && (last.Outcome == "ok" || violated != "") && !strings.HasPrefix(last.Outcome, "stack-overflow") {
			// "(" x 512k: does the recursion overflow a 64 MiB stack?
			pb := 60 * time.Second
			pt, out := measure(g, probeN, variant, pb)
			probe = &pt
			if out.done == nil {
				kind, fn, msg := classifyDeath(out.stderr, out.timedOut)
				if kind == "stack-overflow" {
					report(growthKey(g, "stack-overflow"), fmt.Sprintf("family %s n=%d (%d bytes): the worker died with a stack overflow (max stack 64 MiB; legitimate nesting is capped at %d): %s in %s", name, probeN, pt.Bytes, maxLegitDepth, msg, fn), probeN)
				} else if kind == "out-of-memory" {
					report(growthKey(g, "out-of-memory"), fmt.Sprintf("family %s n=%d: out of memory: %s", name, probeN, msg), probeN)
				} else if violated == "" && kind != "budget" {
					report(deathKey(kind, fn, msg, out.stderr), fmt.Sprintf("family %s n=%d: worker died: %s %s in %s", name, probeN, kind, msg, fn), probeN)
				}
			} else {
				for _, r := range out.reports {
					for _, f := range r.Findings {
						key := f.Key
						if strings.HasPrefix(key, "unbounded-recursion:") {
							key = growthKey(g, "")
						}
						report(key, fmt.Sprintf("family %s n=%d: %s", name, probeN, f.What), probeN)
					}
				}
			}
		}
		maxAlloc, maxCPU := 0.0, 0.0
		for k := 1; k < len(pts); k++ {
			if pts[k].Outcome != "ok" || pts[k-1].Outcome != "ok" {
				continue
			}
			if r := ratio(float64(pts[k-1].Alloc), float64(pts[k].Alloc)); r > maxAlloc {
				maxAlloc = r
			}
			if r := ratio(pts[k-1].CPU, pts[k].CPU); r > maxCPU && pts[k].CPU >= 0.05 {
				maxCPU = r
			}
		}
		sum := map[string]interface{}{
			"sizes": len(pts), "max_alloc_ratio_per_doubling": round2(maxAlloc), "max_cpu_ratio_per_doubling": round2(maxCPU),
			"last": pts[len(pts)-1], "violation": violated,
		}
		if probe != nil {
			sum["probe_512k"] = *probe
		}
		mu.Lock()
		res <- growthResult{Family: name, Summary: sum, Complete: complete}
		mu.Unlock()
		if os.Getenv("C11_GROWTH_LOG") != "" {
			fmt.Fprintf(os.Stderr, "c11: growth %s: %+v\n", name, sum)
		}
	})
}

func round2(f float64) float64 { return float64(int(f*100+0.5)) / 100 }

func replayGrowth(name string, n int) {
	parts := strings.SplitN(name, "@", 2)
	variant := "cmdsA"
	if len(parts) == 2 {
		variant = parts[1]
	}
	for _, g := range growthFamilies() {
		if g.name != parts[0] {
			continue
		}
		fmt.Printf("growth family %s, variant %s\n", g.name, variant)
		for _, m := range []int{n / 4, n / 2, n} {
			if m < 1 {
				continue
			}
			pt, out := measure(g, m, variant, 300*time.Second)
			fmt.Printf("  n=%d input=%d bytes: outcome=%s alloc=%d mallocs=%d reads=%d deadline_calls=%d cpu=%.3fs max_depth_delivered=%d\n", m, pt.Bytes, pt.Outcome, pt.Alloc, pt.Mallocs, pt.Reads, pt.Deadline, pt.CPU, pt.MaxDepth)
			for _, r := range out.reports {
				for _, f := range r.Findings {
					fmt.Printf("    => finding key=%s: %s\n", f.Key, f.What)
				}
			}
			if out.done == nil {
				lines := strings.Split(out.stderr, "\n")
				for i := 0; i < len(lines) && i < 16; i++ {
					fmt.Println("     | " + lines[i])
				}
			}
		}
		return
	}
	run.EngineError("unknown growth family %q", name)
}
