package main

import (
	"fmt"
	"math"
	"os"
	"strconv"
	"strings"
	"sync"
	"sync/atomic"
	"time"

	"github.com/emersion/go-imap/v2/verif/vk"
)

// ---- (v) growth families: resource use as a function of n ----

type growthResult struct {
	Family   string
	Summary  interface{}
	Complete bool
}

var growthRuns, remeasured atomic.Int64

type point struct {
	N        int     `json:"n"`
	Bytes    int     `json:"input_bytes"`
	Alloc    uint64  `json:"total_alloc"`
	Mallocs  uint64  `json:"mallocs"`
	Reads    int64   `json:"conn_reads"`
	Deadline int64   `json:"deadline_calls"`
	CPU      float64 `json:"cpu_s"`
	MaxDepth int     `json:"max_depth_delivered,omitempty"`
	Outcome  string  `json:"outcome"`
}

const (
	allocRatioMax = 2.5
	cpuRatioMin   = 6.0
	// quadratic work that allocates nothing (a linear scan per element): CPU time (rusage of the
	// worker, not wall time) quadruples per doubling; judged only where it is large enough to measure
	// (>= 1 s of CPU for well under a megabyte of input at the quick sizes, which linear parsing never needs) and over
	// three doublings, where quadratic (64x) and linear (8x) are far apart even when single doublings
	// measure anywhere between 3x and 7x on a loaded machine; the smallest of 4 measurements counts
	cpuRatioQuad8   = 24.0 // over three doublings: linear 8x, n log n about 10x, quadratic 64x
	cpuQuadMin      = 1.0
	remeasureRounds = 12
	warmupN         = 8 // size of the unmeasured warm-up job that opens every series
)

// measure runs a series of sizes of one family under one variant in one fresh worker (one job
// per size; counters are deltas around each job). A death ends the series at the open size.
func measure(g growth, sizes []int, variant string, budget time.Duration) (pts []point, reps [][]finding, death *workerOut) {
	// job 0 is a warm-up of the same family and variant at a small size: whatever a process
	// allocates once (lazily built tables, the first client's goroutine stacks and buffers, fmt and
	// reflection caches, about 40 KB and 760 allocations) is then paid before the first measured
	// size instead of inside it. Without it the first size of every series carried that constant,
	// which inflated the ratio across the stage boundary and deflated it in every re-measurement.
	const warm = 1
	jobs := []job{{id: 0, mask: variantMask(variant), flags: fMeasure, input: g.gen(warmupN)}}
	for i, n := range sizes {
		jobs = append(jobs, job{id: uint32(i + warm), mask: variantMask(variant), flags: fMeasure, input: g.gen(n)})
	}
	growthRuns.Add(int64(len(sizes)))
	out := runWorker(jobs, workerOpts{budget: budget, watchdog: int(budget/time.Second) + 30})
	if out.done == nil && out.lastBeg == 0 {
		// the worker died in the warm-up itself: reported as a death at that size
		kind, _, msg := classifyDeath(out.stderr, out.timedOut)
		return []point{{N: warmupN, Bytes: len(jobs[0].input), Outcome: kind + ": " + msg}}, [][]finding{nil}, &out
	}
	for i, n := range sizes {
		pt := point{N: n, Bytes: len(jobs[i+warm].input)}
		var fs []finding
		found := false
		for _, r := range out.reports {
			if int(r.ID) != i+warm {
				continue
			}
			found = true
			pt.Outcome = "ok"
			if r.Metrics != nil {
				pt.Alloc, pt.Mallocs, pt.Reads, pt.Deadline, pt.CPU = r.Metrics.TotalAlloc, r.Metrics.Mallocs, r.Metrics.ConnReads, r.Metrics.Deadlines, r.Metrics.CPU
			}
			pt.MaxDepth = r.MaxDepth
			fs = r.Findings
		}
		if !found {
			if out.done == nil && int64(i+warm) == out.lastBeg {
				kind, _, msg := classifyDeath(out.stderr, out.timedOut)
				pt.Outcome = kind + ": " + msg
				pts = append(pts, pt)
				reps = append(reps, nil)
			}
			break
		}
		pts = append(pts, pt)
		reps = append(reps, fs)
	}
	if out.done == nil {
		death = &out
	}
	return
}

func ratio(a, b float64) float64 {
	if a <= 0 {
		return 0
	}
	return b / a
}

func growthKey(g growth, what string) string {
	if g.recursive {
		return "unbounded-recursion:" + g.prod
	}
	return what + ":" + g.prod
}

func runGrowth(thorough bool, res chan<- growthResult) {
	fams := growthFamilies()
	sizes := []int{1 << 10, 2 << 10, 4 << 10, 8 << 10, 16 << 10, 32 << 10, 64 << 10}
	budget := 240 * time.Second
	par := 8
	if thorough {
		sizes = append(sizes, 128<<10, 256<<10, 512<<10)
		budget = 900 * time.Second
		par = 8
	}
	const probeN = 512 << 10
	type task struct {
		g       growth
		variant string
	}
	var tasks []task
	for _, g := range fams {
		tasks = append(tasks, task{g, "cmdsA"})
		// without a pending command only these responses do anything beyond being parsed and dropped
		up := strings.ToUpper(string(g.gen(1)))
		for _, kw := range []string{"FETCH", "EXPUNGE", "EXISTS", "FLAGS", "METADATA"} {
			if strings.Contains(up, kw) {
				tasks = append(tasks, task{g, "unsol"})
				break
			}
		}
	}
	var mu sync.Mutex
	vk.ParallelW(par, len(tasks), func(i int) {
		g, variant := tasks[i].g, tasks[i].variant
		name := g.name + "@" + variant
		complete := true
		violated := ""
		report := func(key, what string, n int) {
			if violated != "" {
				return
			}
			violated = key
			addCandidate(candidate{Key: key, Input: g.gen(min(n, 64)), Variant: variant, What: what, Family: "growth", GrowthF: name, GrowthN: n, Rank: 1})
		}
		deathReport := func(d *workerOut, pt point) {
			kind, fn, msg := classifyDeath(d.stderr, d.timedOut)
			switch kind {
			case "budget", "watchdog":
				if violated == "" {
					complete = false
				}
			case "stack-overflow":
				report(growthKey(g, "stack-overflow"), fmt.Sprintf("family %s n=%d (%d bytes): the worker died with a stack overflow (max stack 64 MiB; legitimate nesting is capped at %d): %s in %s", name, pt.N, pt.Bytes, maxLegitDepth, msg, fn), pt.N)
			case "out-of-memory":
				report(growthKey(g, "out-of-memory"), fmt.Sprintf("family %s n=%d (%d bytes): the worker ran out of memory under RLIMIT_AS 4 GiB: %s", name, pt.N, pt.Bytes, msg), pt.N)
			default:
				report(deathKey(kind, fn, msg, d.stderr), fmt.Sprintf("family %s n=%d: worker died: %s %s in %s", name, pt.N, kind, msg, fn), pt.N)
			}
		}
		findingsReport := func(fs []finding, n int) {
			for _, f := range fs {
				key := f.Key
				if g.recursive && (strings.HasPrefix(key, "unbounded-recursion:") || strings.HasPrefix(key, "fatal-panic:")) {
					key = growthKey(g, "")
				}
				report(key, fmt.Sprintf("family %s n=%d: %s", name, n, f.What), n)
			}
		}
		// stage 1: the three smallest sizes; the rest only if they show nothing (a quadratic
		// family must not be driven to 64k/512k)
		var pts []point
		var death *workerOut
		checked := 1
		get := func(p point, c int) float64 {
			switch c {
			case 0:
				return float64(p.Alloc)
			case 1:
				return float64(p.Mallocs)
			case 2:
				return float64(p.Reads)
			}
			return float64(p.Deadline)
		}
		stages := [][]int{sizes[:3], sizes[3:]}
		for _, st := range stages {
			if violated != "" || death != nil || len(st) == 0 {
				break
			}
			p2, reps, d := measure(g, st, variant, budget)
			base := len(pts)
			pts = append(pts, p2...)
			for k := range p2 {
				findingsReport(reps[k], p2[k].N)
			}
			_ = base
			ctrNames := []string{"allocated bytes (TotalAlloc)", "allocations (Mallocs)", "connection reads", "deadline calls (responses processed)"}
			for k := checked; k < len(pts) && violated == ""; k++ {
				a, b := pts[k-1], pts[k]
				if a.Outcome != "ok" || b.Outcome != "ok" {
					continue
				}
				for c := range ctrNames {
					r := ratio(get(a, c), get(b, c))
					if r <= allocRatioMax {
						continue
					}
					// Re-measure the pair up to remeasureRounds times. Growth that is really there is
					// there in every run, so it must show both in the smallest ratio of a pair measured
					// together and in the ratio of the smallest value seen for each size, every time. A
					// counter that differs between runs of the same input by an additive amount (a copy
					// made or not depending on which goroutine gets there first; an error formatted or
					// not depending on which of two ready channels a select picks) lifts single ratios
					// above the limit, but not all of them: the first pair at or below the limit ends
					// the re-measurement. With the two-valued noise seen in this client (one coin per
					// run) a pair is above the limit with probability <= 1/4, all twelve with < 1e-7.
					best := r
					floorA, floorB := get(a, c), get(b, c)
					floor := r
					remeasured.Add(1)
					rounds := 0
					for rounds < remeasureRounds && best > allocRatioMax && floor > allocRatioMax {
						rounds++
						p2, _, _ := measure(g, []int{a.N, b.N}, variant, budget)
						if len(p2) == 2 && p2[0].Outcome == "ok" && p2[1].Outcome == "ok" {
							va, vb := get(p2[0], c), get(p2[1], c)
							if r2 := ratio(va, vb); r2 < best {
								best = r2
							}
							floorA, floorB = math.Min(floorA, va), math.Min(floorB, vb)
							floor = ratio(floorA, floorB)
						}
					}
					if os.Getenv("C11_GROWTH_LOG") != "" {
						fmt.Fprintf(os.Stderr, "c11: growth %s: %s x%.2f from n=%d to n=%d re-measured %d times: smallest pair ratio x%.2f, ratio of the smallest values x%.2f\n", name, ctrNames[c], r, a.N, b.N, rounds, best, floor)
					}
					if best > allocRatioMax && floor > allocRatioMax {
						report(growthKey(g, "superlinear-alloc"), fmt.Sprintf("family %s: %s grows %.2fx from n=%d to n=%d (%d -> %d bytes allocated, %d -> %d allocations) for an input that doubles (%d -> %d bytes); smallest of 13 measurements of the pair %.2fx, ratio of the smallest value of each size %.2fx; limit %.1fx", name, ctrNames[c], r, a.N, b.N, a.Alloc, b.Alloc, a.Mallocs, b.Mallocs, a.Bytes, b.Bytes, best, floor, allocRatioMax), b.N)
					}
				}
				// quadratic work that allocates nothing: compare with the size three doublings back
				if k >= 3 && pts[k-3].Outcome == "ok" && b.CPU >= cpuQuadMin && violated == "" {
					z := pts[k-3]
					if r := ratio(z.CPU, b.CPU); r >= cpuRatioQuad8 {
						best := r
						for t := 0; t < 3; t++ {
							p2, _, _ := measure(g, []int{z.N, b.N}, variant, budget)
							if len(p2) == 2 && p2[0].Outcome == "ok" && p2[1].Outcome == "ok" && p2[1].CPU >= cpuQuadMin {
								if r2 := ratio(p2[0].CPU, p2[1].CPU); r2 < best {
									best = r2
								}
							} else {
								best = 0
							}
						}
						if best >= cpuRatioQuad8 {
							report(growthKey(g, "superlinear-cpu"), fmt.Sprintf("family %s: CPU time grows %.0fx from n=%d to n=%d (%.3fs -> %.2fs) for an input 8x as long, smallest of 4 measurements; allocation stays linear", name, best, z.N, b.N, z.CPU, b.CPU), b.N)
						}
					}
				}
				if r := ratio(a.CPU, b.CPU); r >= cpuRatioMin && b.CPU >= 1.0 && violated == "" {
					best := r
					for t := 0; t < 5; t++ {
						p2, _, _ := measure(g, []int{a.N, b.N}, variant, budget)
						if len(p2) == 2 && p2[0].Outcome == "ok" && p2[1].Outcome == "ok" {
							if r2 := ratio(p2[0].CPU, p2[1].CPU); r2 < best {
								best = r2
							}
						} else {
							best = 0
						}
					}
					if best >= cpuRatioMin {
						report(growthKey(g, "superlinear-cpu"), fmt.Sprintf("family %s: CPU time grows %.1fx from n=%d to n=%d (%.2fs -> %.2fs), smallest of 6 measurements", name, best, a.N, b.N, a.CPU, b.CPU), b.N)
					}
				}
			}

			checked = len(pts)
			if d != nil && len(p2) > 0 {
				death = d
				deathReport(d, p2[len(p2)-1])
			}
		}
		var probe *point
		last := point{Outcome: "none"}
		if len(pts) > 0 {
			last = pts[len(pts)-1]
		}
		if g.recursive && last.N < probeN && !strings.HasPrefix(last.Outcome, "stack-overflow") {
			// "(" x 512k: does the recursion overflow a 64 MiB stack?
			pp, rr, d := measure(g, []int{probeN}, variant, 25*time.Second)
			if len(pp) == 1 {
				probe = &pp[0]
				if violated != "" {
					candMu.Lock()
					if c := cands[violated]; c != nil && c.GrowthF == name {
						c.What += fmt.Sprintf("; the same family at n=%d: %s", probeN, pp[0].Outcome)
					}
					candMu.Unlock()
				}
				if d != nil {
					kind, _, _ := classifyDeath(d.stderr, d.timedOut)
					if kind != "budget" && kind != "watchdog" {
						deathReport(d, pp[0])
					}
				} else {
					findingsReport(rr[0], probeN)
				}
			}
		}
		maxAlloc, maxCPU := 0.0, 0.0
		for k := 1; k < len(pts); k++ {
			if pts[k].Outcome != "ok" || pts[k-1].Outcome != "ok" {
				continue
			}
			if r := ratio(float64(pts[k-1].Alloc), float64(pts[k].Alloc)); r > maxAlloc {
				maxAlloc = r
			}
			if r := ratio(pts[k-1].CPU, pts[k].CPU); r > maxCPU && pts[k].CPU >= 0.2 {
				maxCPU = r
			}
		}
		sum := map[string]interface{}{
			"sizes": len(pts), "max_alloc_ratio_per_doubling": round2(maxAlloc), "max_cpu_ratio_per_doubling_above_0.2s": round2(maxCPU),
			"last": last, "violation": violated,
		}
		if probe != nil {
			sum["probe_512k"] = *probe
		}
		mu.Lock()
		res <- growthResult{Family: name, Summary: sum, Complete: complete}
		mu.Unlock()
		if os.Getenv("C11_GROWTH_LOG") != "" {
			fmt.Fprintf(os.Stderr, "c11: growth %s: %+v\n", name, sum)
		}
	})
}

func round2(f float64) float64 { return float64(int(f*100+0.5)) / 100 }

func replayGrowth(name string, n int) (reproduced bool) {
	parts := strings.SplitN(name, "@", 2)
	variant := "cmdsA"
	if len(parts) == 2 {
		variant = parts[1]
	}
	for _, g := range growthFamilies() {
		if g.name != parts[0] {
			continue
		}
		fmt.Printf("growth family %s, variant %s\n", g.name, variant)
		var sz []int
		// the same grid as the check: sizes are powers of two from 1k
		for _, m := range []int{n / 2, n} {
			if m >= 1<<10 {
				sz = append(sz, m)
			}
		}
		// the rule of the check: up to 1+remeasureRounds measurements of the pair; growth above the
		// limit must show every time in the smallest pair ratio and in the ratio of the smallest
		// value of each size
		var pts []point
		var reps [][]finding
		var death *workerOut
		bestA, bestM := math.Inf(1), math.Inf(1)
		var floor [2][2]float64 // [size][alloc, mallocs]
		pairs := 0
		for t := 0; t < 1+remeasureRounds && death == nil; t++ {
			pts, reps, death = measure(g, sz, variant, 600*time.Second)
			for k, pt := range pts {
				fmt.Printf("  run %d n=%d input=%d bytes: outcome=%s alloc=%d mallocs=%d reads=%d deadline_calls=%d cpu=%.3fs max_depth_delivered=%d\n", t, pt.N, pt.Bytes, pt.Outcome, pt.Alloc, pt.Mallocs, pt.Reads, pt.Deadline, pt.CPU, pt.MaxDepth)
				for _, f := range reps[k] {
					fmt.Printf("    => finding key=%s: %s\n", f.Key, f.What)
					reproduced = true
				}
			}
			if reproduced || len(sz) < 2 {
				break
			}
			if len(pts) == 2 && pts[0].Outcome == "ok" && pts[1].Outcome == "ok" {
				ra, rm := ratio(float64(pts[0].Alloc), float64(pts[1].Alloc)), ratio(float64(pts[0].Mallocs), float64(pts[1].Mallocs))
				fmt.Printf("    growth for a doubled input: allocated bytes x%.2f, allocations x%.2f, cpu x%.2f\n", ra, rm, ratio(pts[0].CPU, pts[1].CPU))
				bestA, bestM = math.Min(bestA, ra), math.Min(bestM, rm)
				for k := 0; k < 2; k++ {
					va, vm := float64(pts[k].Alloc), float64(pts[k].Mallocs)
					if pairs == 0 || va < floor[k][0] {
						floor[k][0] = va
					}
					if pairs == 0 || vm < floor[k][1] {
						floor[k][1] = vm
					}
				}
				pairs++
				fa, fm := ratio(floor[0][0], floor[1][0]), ratio(floor[0][1], floor[1][1])
				if (bestA <= allocRatioMax || fa <= allocRatioMax) && (bestM <= allocRatioMax || fm <= allocRatioMax) {
					break // neither counter can be above the limit any more
				}
			}
		}
		if pairs > 0 {
			fa, fm := ratio(floor[0][0], floor[1][0]), ratio(floor[0][1], floor[1][1])
			fmt.Printf("  over %d measurements of the pair: allocated bytes smallest pair ratio x%.2f, ratio of the smallest values x%.2f; allocations x%.2f, x%.2f (limit x%.1f on both of a counter)\n", pairs, bestA, fa, bestM, fm, allocRatioMax)
			if pairs == 1+remeasureRounds && ((bestA > allocRatioMax && fa > allocRatioMax) || (bestM > allocRatioMax && fm > allocRatioMax)) {
				reproduced = true
			}
		}
		if death != nil {
			kind, _, _ := classifyDeath(death.stderr, death.timedOut)
			if kind != "budget" && kind != "watchdog" {
				reproduced = true
			}
			lines := strings.Split(death.stderr, "\n")
			for i := 0; i < len(lines) && i < 16; i++ {
				fmt.Println("     | " + lines[i])
			}
		}
		return
	}
	run.EngineError("unknown growth family %q", name)
	return
}

// growthScan is a diagnostic (C11_GROWTH_SCAN=<substring of family@variant>[,...] C11_GROWTH_SCAN_REPEAT=k):
// it measures the quick sizes of the selected families k times and prints every point, to see how
// much the counters of one size vary between runs. It decides nothing.
func growthScan(sel string) {
	k := 5
	if v, err := strconv.Atoi(os.Getenv("C11_GROWTH_SCAN_REPEAT")); err == nil && v > 0 {
		k = v
	}
	sizes := []int{1 << 10, 2 << 10, 4 << 10, 8 << 10, 16 << 10, 32 << 10, 64 << 10}
	for _, g := range growthFamilies() {
		for _, variant := range []string{"cmdsA", "unsol"} {
			name := g.name + "@" + variant
			hit := false
			for _, s := range strings.Split(sel, ",") {
				if s == "all" || strings.Contains(name, s) {
					hit = true
				}
			}
			if !hit {
				continue
			}
			for t := 0; t < k; t++ {
				pts, _, _ := measure(g, sizes, variant, 240*time.Second)
				fmt.Printf("%s run %d:", name, t)
				for _, pt := range pts {
					fmt.Printf(" n=%d[%s alloc=%d mallocs=%d reads=%d dl=%d]", pt.N, pt.Outcome, pt.Alloc, pt.Mallocs, pt.Reads, pt.Deadline)
				}
				fmt.Println()
			}
		}
	}
}
