package main

import (
	"bufio"
	"encoding/binary"
	"encoding/json"
	"fmt"
	"io"
	"os"
	"runtime"
	"runtime/debug"
	"runtime/pprof"
	"strconv"
	"sync/atomic"
	"syscall"
	"time"
)

// ---- job framing (parent -> worker stdin) ----

const (
	fVerbose  = 1
	fMeasure  = 2
	fEnumHuge = 4
	fForce    = 8 // run the bare variant even when the handler variant predicts a fatal panic
)

type job struct {
	id    uint32
	mask  uint16
	flags uint8
	input []byte
}

func writeJob(w io.Writer, j job) error {
	var h [11]byte
	binary.LittleEndian.PutUint32(h[0:], uint32(len(j.input)))
	binary.LittleEndian.PutUint32(h[4:], j.id)
	binary.LittleEndian.PutUint16(h[8:], j.mask)
	h[10] = j.flags
	if _, err := w.Write(h[:]); err != nil {
		return err
	}
	_, err := w.Write(j.input)
	return err
}

func readJob(r io.Reader) (job, error) {
	var h [11]byte
	if _, err := io.ReadFull(r, h[:]); err != nil {
		return job{}, err
	}
	j := job{id: binary.LittleEndian.Uint32(h[4:]), mask: binary.LittleEndian.Uint16(h[8:]), flags: h[10]}
	j.input = make([]byte, binary.LittleEndian.Uint32(h[0:]))
	if _, err := io.ReadFull(r, j.input); err != nil {
		return job{}, err
	}
	return j, nil
}

// ---- results (worker -> parent stdout, one line each) ----

type caseReport struct {
	ID             uint32              `json:"id"`
	Findings       []finding           `json:"findings,omitempty"`
	PredictedFatal bool                `json:"predicted_fatal,omitempty"`
	Trace          map[string][]string `json:"trace,omitempty"`
	Metrics        *metrics            `json:"metrics,omitempty"`
	CloseErr       map[string]string   `json:"close_err,omitempty"`
	MaxDepth       int                 `json:"max_depth,omitempty"`
}

type doneReport struct {
	Cases      int64            `json:"cases"`
	Runs       int64            `json:"runs"`
	Delivered  int64            `json:"cases_with_data_delivered"`
	Rejected   int64            `json:"cases_rejected_with_error"`
	CleanClose int64            `json:"cases_accepted_to_eof"`
	Cov        map[string]int64 `json:"cov"`
	BareSkips  int64            `json:"bare_skipped_predicted_fatal"`
}

func cpuSeconds() float64 {
	var ru syscall.Rusage
	syscall.Getrusage(syscall.RUSAGE_SELF, &ru)
	return float64(ru.Utime.Sec+ru.Stime.Sec) + float64(ru.Utime.Usec+ru.Stime.Usec)/1e6
}

func workerMain() {
	limGiB := uint64(4)
	if s := os.Getenv("C11_AS_GIB"); s != "" {
		if v, err := strconv.Atoi(s); err == nil && v > 0 {
			limGiB = uint64(v)
		}
	}
	lim := syscall.Rlimit{Cur: limGiB << 30, Max: limGiB << 30}
	syscall.Setrlimit(syscall.RLIMIT_AS, &lim)
	debug.SetMaxStack(64 << 20)
	if p := os.Getenv("C11_MEMPROFILE"); p != "" {
		// diagnostic: every allocation of this worker, by call site (go tool pprof -sample_index=alloc_space)
		runtime.MemProfileRate = 1
		defer func() {
			if f, err := os.Create(fmt.Sprintf("%s.%d", p, os.Getpid())); err == nil {
				runtime.GC()
				pprof.Lookup("allocs").WriteTo(f, 0)
				f.Close()
			}
		}()
	}
	watchdog := 90 * time.Second
	if s := os.Getenv("C11_WATCHDOG_S"); s != "" {
		if v, err := strconv.Atoi(s); err == nil && v > 0 {
			watchdog = time.Duration(v) * time.Second
		}
	}
	var current atomic.Int64
	current.Store(-1)
	var beat atomic.Int64
	go func() {
		last, since := int64(-2), time.Now()
		for {
			time.Sleep(500 * time.Millisecond)
			b := beat.Load()
			if b != last || current.Load() < 0 {
				last, since = b, time.Now()
				continue
			}
			if time.Since(since) > watchdog {
				fmt.Fprintf(os.Stderr, "C11-WATCHDOG case=%d did not finish within %v\n", current.Load(), watchdog)
				pprof.Lookup("goroutine").WriteTo(os.Stderr, 1)
				os.Exit(3)
			}
		}
	}()

	in := bufio.NewReaderSize(os.Stdin, 1<<20)
	out := os.Stdout
	done := doneReport{Cov: map[string]int64{}}
	for {
		j, err := readJob(in)
		if err != nil {
			break
		}
		current.Store(int64(j.id))
		beat.Add(1)
		fmt.Fprintf(out, "B %d\n", j.id)
		rep := caseReport{ID: j.id}
		verbose := j.flags&fVerbose != 0
		measure := j.flags&fMeasure != 0
		var ms0, ms1 runtime.MemStats
		var cpu0 float64
		var t0 time.Time
		var agg metrics
		if measure {
			runtime.GC()
			runtime.ReadMemStats(&ms0)
			cpu0 = cpuSeconds()
			t0 = time.Now()
		}
		delivered, rejected, clean := false, false, false
		predicted := false
		for v := 0; v < numVariants; v++ {
			if j.mask&(1<<uint(v)) == 0 {
				continue
			}
			if v == vBare && predicted && j.flags&fForce == 0 {
				done.BareSkips++
				rep.PredictedFatal = true
				continue
			}
			o := runVariant(j.input, v, verbose, j.flags&fEnumHuge != 0)
			done.Runs++
			for k, n := range o.cov {
				done.Cov[variantGroup(v)+"/"+k] += n
			}
			if o.delivered > 0 {
				delivered = true
			}
			if o.closeErr == "<nil>" {
				clean = true
			} else if o.closeErr != "" {
				rejected = true
			}
			rep.Findings = append(rep.Findings, o.findings...)
			if o.maxDepthObs > rep.MaxDepth {
				rep.MaxDepth = o.maxDepthObs
			}
			if v == vUnsol {
				for _, f := range o.findings {
					if f.Key == "panic:fetch-body-nil-literal" {
						predicted = true
					}
				}
				// (a nil literal item alone is legal data and predicts nothing: only the observed
				// panic in the handler variant stands for the fatal one in the bare variant)
			}
			if verbose {
				if rep.Trace == nil {
					rep.Trace = map[string][]string{}
					rep.CloseErr = map[string]string{}
				}
				rep.Trace[variantNames[v]] = o.trace
				rep.CloseErr[variantNames[v]] = o.closeErr
			}
		}
		done.Cases++
		if delivered {
			done.Delivered++
		}
		if rejected {
			done.Rejected++
		}
		if clean {
			done.CleanClose++
		}
		if measure {
			runtime.ReadMemStats(&ms1)
			agg.TotalAlloc = ms1.TotalAlloc - ms0.TotalAlloc
			agg.Mallocs = ms1.Mallocs - ms0.Mallocs
			agg.CPU = cpuSeconds() - cpu0
			agg.Wall = time.Since(t0).Seconds()
			agg.ConnReads, agg.Deadlines, agg.Consumed = lastConnStats()
			rep.Metrics = &agg
		}
		if len(rep.Findings) > 0 || verbose || measure || rep.PredictedFatal {
			b, _ := json.Marshal(rep)
			fmt.Fprintf(out, "R %s\n", b)
		}
		current.Store(-1)
	}
	b, _ := json.Marshal(done)
	fmt.Fprintf(out, "D %s\n", b)
}

func variantGroup(v int) string {
	switch v {
	case vCmdsA, vCmdsB:
		return "cmd"
	case vGreet:
		return "greet"
	}
	return "unsol"
}

// connection counters of the most recent run (growth measurements run one variant per job)
var lastConn atomic.Pointer[fakeConn]

func lastConnStats() (reads, deadlines, consumed int64) {
	c := lastConn.Load()
	if c == nil {
		return
	}
	c.mu.Lock()
	defer c.mu.Unlock()
	return c.reads, c.deadlines, int64(c.off)
}
