package main

import (
	"testing"
)

func benchVariant(b *testing.B, v int, in string) {
	for i := 0; i < b.N; i++ {
		runVariant([]byte(in), v, false, false)
	}
}

func BenchmarkCmdsA(b *testing.B) { benchVariant(b, vCmdsA, "* 1 FETCH (UID 1 FLAGS (\\Seen))\r\n") }
func BenchmarkUnsol(b *testing.B) { benchVariant(b, vUnsol, "* 1 FETCH (UID 1 FLAGS (\\Seen))\r\n") }
func BenchmarkBare(b *testing.B)  { benchVariant(b, vBare, "* 1 FETCH (UID 1 FLAGS (\\Seen))\r\n") }
func BenchmarkGreet(b *testing.B) { benchVariant(b, vGreet, "* OK hi\r\n") }
func BenchmarkIdle(b *testing.B)  { benchVariant(b, vIdle, "* 1 EXISTS\r\n") }
