// C12 — the client routes responses to the right command and mirrors protocol state.
// The real client runs under the vsched scheduler (default schedule; what is enumerated is the
// server's behaviour): every pipeline of <= 2/3 unambiguous commands x every answer order and
// interleaving of untagged data permitted by RFC 9051 §5.5 x every outcome assignment, and every
// sequence of <= 3/4 unilateral responses in four contexts. After EVERY server line the system
// runs to quiescence and State()/Mailbox() are compared with a reference transcript interpreter;
// at the end every command's status and data are compared, and a final NOOP must succeed.
package main

import (
	"encoding/json"
	"fmt"
	"os"
	"sort"
	"strings"

	imap "github.com/emersion/go-imap/v2"
	"github.com/emersion/go-imap/v2/imapclient"
	"github.com/emersion/go-imap/v2/internal/vsched"
	"github.com/emersion/go-imap/v2/verif/vimap"
	"github.com/emersion/go-imap/v2/verif/vk"
	"github.com/emersion/go-imap/v2/verif/vnet"
	"github.com/emersion/go-imap/v2/verif/vx"
)

// ---------- command kinds ----------

type handle struct {
	wait func() (error, string) // status and canonical data
}

type kind struct {
	name  string
	dupOf string // non-empty: only allowed directly or indirectly behind the named kind, answered in issue order
	// anyOrder (with dupOf): the responses carry the command's tag, so the two commands are not
	// ambiguous and the server may answer them in any order
	anyOrder bool
	// ext: extension kinds take part in pipelines of at most 2 (+1 dup) commands also in the
	// thorough tier (the triples are over the core kinds)
	ext   bool
	class string // ambiguity class: at most one pending command per class ("" = none)
	lines int    // CRLFs the client writes for the command
	issue func(c *imapclient.Client) handle
	// data lines the server sends before the completion when the outcome is OK ("%T" = tag)
	data []string
	// canonical data expected by the caller when OK
	want string
	// response code used for the "OK [code]" outcome and its effect on want
	okCode, wantWithCode string
	// state effect when OK
	effect func(m *model)
	sync   bool // uses a synchronising literal: the server must answer "+" (or refuse) at once
}

func errString(err error) string {
	if err == nil {
		return "OK"
	}
	if ie, ok := err.(*imap.Error); ok {
		return string(ie.Type) + "[" + string(ie.Code) + "]"
	}
	return "ERR:" + err.Error()
}

func flagsStr(f []imap.Flag) string {
	var s []string
	for _, x := range f {
		s = append(s, string(x))
	}
	return strings.Join(s, " ")
}

func kinds() []kind {
	st := &imap.StatusOptions{NumMessages: true}
	return []kind{
		{name: "NOOP", lines: 1, issue: func(c *imapclient.Client) handle {
			cmd := c.Noop()
			return handle{func() (error, string) { return cmd.Wait(), "" }}
		}},
		{name: "STATUS a", lines: 1, data: []string{"* STATUS a (MESSAGES 3)"}, want: "a:3", issue: func(c *imapclient.Client) handle {
			cmd := c.Status("a", st)
			return handle{func() (error, string) {
				d, err := cmd.Wait()
				s := ""
				if d != nil && d.NumMessages != nil {
					s = fmt.Sprintf("%s:%d", d.Mailbox, *d.NumMessages)
				}
				return err, s
			}}
		}},
		// a second mailbox whose name differs from the first one by case only (names other than INBOX
		// are case-sensitive: two mailboxes, two unambiguous commands)
		{name: "STATUS A", lines: 1, data: []string{"* STATUS A (MESSAGES 7)"}, want: "A:7", issue: func(c *imapclient.Client) handle {
			cmd := c.Status("A", st)
			return handle{func() (error, string) {
				d, err := cmd.Wait()
				s := ""
				if d != nil && d.NumMessages != nil {
					s = fmt.Sprintf("%s:%d", d.Mailbox, *d.NumMessages)
				}
				return err, s
			}}
		}},
		{name: "STATUS inbox", lines: 1, data: []string{"* STATUS INBOX (MESSAGES 9)"}, want: "INBOX:9", issue: func(c *imapclient.Client) handle {
			cmd := c.Status("inbox", st)
			return handle{func() (error, string) {
				d, err := cmd.Wait()
				s := ""
				if d != nil && d.NumMessages != nil {
					s = fmt.Sprintf("%s:%d", d.Mailbox, *d.NumMessages)
				}
				return err, s
			}}
		}},
		{name: "LIST", class: "list", lines: 1, data: []string{`* LIST () "/" INBOX`, `* LIST (\Noselect) "/" "x y"`}, want: "INBOX,x y", issue: func(c *imapclient.Client) handle {
			cmd := c.List("", "*", nil)
			return handle{func() (error, string) {
				l, err := cmd.Collect()
				var n []string
				for _, d := range l {
					n = append(n, d.Mailbox)
				}
				return err, strings.Join(n, ",")
			}}
		}},
		{name: "FETCH 1:2", class: "fetch", lines: 1, data: []string{`* 1 FETCH (FLAGS (\Seen))`, `* 2 FETCH (FLAGS ())`}, want: "1:\\Seen;2:", issue: fetchIssue(imap.SeqSetNum(1, 2))},
		// answered in descending order (the order of FETCH responses is the server's choice)
		{name: "FETCH 2:*", class: "fetch", lines: 1, data: []string{`* 3 FETCH (FLAGS (\Seen))`, `* 2 FETCH (FLAGS ())`}, want: "3:\\Seen;2:", issue: fetchIssue(func() imap.NumSet { var s imap.SeqSet; s.AddRange(2, 0); return s }())},
		{name: "FETCH *", class: "fetch", lines: 1, data: []string{`* 3 FETCH (FLAGS (\Seen))`}, want: "3:\\Seen", issue: fetchIssue(imap.SeqSetNum(0))},
		{name: "UID FETCH 5", class: "fetch", lines: 1, data: []string{`* 1 FETCH (UID 5 FLAGS (\Seen))`}, want: "1:\\Seen", issue: fetchIssue(imap.UIDSetNum(5))},
		{name: "STORE 1", class: "fetch", lines: 1, data: []string{`* 1 FETCH (FLAGS (\Deleted))`}, want: "1:\\Deleted", issue: func(c *imapclient.Client) handle {
			cmd := c.Store(imap.SeqSetNum(1), &imap.StoreFlags{Op: imap.StoreFlagsAdd, Flags: []imap.Flag{imap.FlagDeleted}}, nil)
			return handle{func() (error, string) { return collectFetch(cmd) }}
		}},
		{name: "SEARCH", class: "search", lines: 1, data: []string{"* SEARCH 2 3"}, want: "2:3", issue: func(c *imapclient.Client) handle {
			cmd := c.Search(&imap.SearchCriteria{Body: []string{"x"}}, nil)
			return handle{func() (error, string) {
				d, err := cmd.Wait()
				s := ""
				if d != nil && d.All != nil {
					s = d.All.String()
				}
				return err, s
			}}
		}},
		{name: "UID SEARCH esearch", class: "search", lines: 1, data: []string{`* ESEARCH (TAG "%T") UID ALL 4:5 COUNT 2`}, want: "4:5 count=2", issue: func(c *imapclient.Client) handle {
			cmd := c.UIDSearch(&imap.SearchCriteria{}, &imap.SearchOptions{ReturnAll: true, ReturnCount: true})
			return handle{func() (error, string) {
				d, err := cmd.Wait()
				s := ""
				if d != nil && d.All != nil {
					s = fmt.Sprintf("%s count=%d", d.All.String(), d.Count)
				}
				return err, s
			}}
		}},
		{name: "EXPUNGE", class: "expunge", lines: 1, data: []string{"* 2 EXPUNGE", "* 1 EXPUNGE"}, want: "2,1", effect: func(m *model) {}, issue: func(c *imapclient.Client) handle {
			cmd := c.Expunge()
			return handle{func() (error, string) {
				l, err := cmd.Collect()
				var s []string
				for _, n := range l {
					s = append(s, fmt.Sprint(n))
				}
				return err, strings.Join(s, ",")
			}}
		}},
		{name: "SELECT m", class: "select", lines: 1, data: []string{"* 4 EXISTS", "* FLAGS (\\Seen \\Draft)", "* OK [PERMANENTFLAGS (\\Seen \\*)] ok"}, want: "4|\\Seen \\Draft|\\Seen \\*", okCode: "READ-WRITE", wantWithCode: "4|\\Seen \\Draft|\\Seen \\*",
			effect: func(m *model) {
				m.state = "selected"
				m.mbox = &mbox{name: "m", num: 4, flags: "\\Seen \\Draft", perm: "\\Seen \\*"}
			},
			issue: func(c *imapclient.Client) handle {
				cmd := c.Select("m", nil)
				return handle{func() (error, string) {
					d, err := cmd.Wait()
					s := ""
					if d != nil && err == nil {
						s = fmt.Sprintf("%d|%s|%s", d.NumMessages, flagsStr(d.Flags), flagsStr(d.PermanentFlags))
					}
					return err, s
				}}
			}},
		{name: "CAPABILITY", class: "cap", lines: 1, data: []string{"* CAPABILITY IMAP4rev1 IDLE MOVE"}, want: "IDLE IMAP4rev1 MOVE", issue: func(c *imapclient.Client) handle {
			cmd := c.Capability()
			return handle{func() (error, string) {
				caps, err := cmd.Wait()
				var s []string
				for k := range caps {
					s = append(s, string(k))
				}
				sort.Strings(s)
				return err, strings.Join(s, " ")
			}}
		}},
		{name: "APPEND nonsync", lines: 2, want: "0/0", okCode: "APPENDUID 9 77", wantWithCode: "9/77", issue: appendIssue},
		{name: "APPEND sync", lines: 2, sync: true, want: "0/0", okCode: "APPENDUID 9 77", wantWithCode: "9/77", issue: func(c *imapclient.Client) handle {
			cmd := c.Append("INBOX", 5000, nil) // > 4096: synchronising even with LITERAL-
			cmd.Write(make([]byte, 5000))
			cmd.Close()
			return handle{func() (error, string) {
				d, err := cmd.Wait()
				s := ""
				if d != nil {
					s = fmt.Sprintf("%d/%d", d.UIDValidity, d.UID)
				}
				return err, s
			}}
		}},
		{name: "COPY", lines: 1, want: "", okCode: "COPYUID 9 1:2 5:6", wantWithCode: "9 1:2 5:6", issue: func(c *imapclient.Client) handle {
			cmd := c.Copy(imap.SeqSetNum(1, 2), "dst")
			return handle{func() (error, string) {
				d, err := cmd.Wait()
				s := ""
				if d != nil && d.UIDValidity != 0 {
					s = fmt.Sprintf("%d %s %s", d.UIDValidity, d.SourceUIDs.String(), d.DestUIDs.String())
				}
				return err, s
			}}
		}},
		{name: "ENABLE", lines: 1, data: []string{"* ENABLED IMAP4rev2"}, want: "IMAP4rev2", issue: func(c *imapclient.Client) handle {
			cmd := c.Enable(imap.CapIMAP4rev2)
			return handle{func() (error, string) {
				d, err := cmd.Wait()
				var s []string
				if d != nil {
					for k := range d.Caps {
						s = append(s, string(k))
					}
				}
				sort.Strings(s)
				return err, strings.Join(s, " ")
			}}
		}},
		// extensions the bundled server does not implement: their data responses are routed by the
		// same dispatcher and can only be checked on the client side
		{name: "SORT", ext: true, class: "sort", lines: 1, data: []string{"* SORT 3 1 2"}, want: "3 1 2", issue: func(c *imapclient.Client) handle {
			cmd := c.Sort(&imapclient.SortOptions{SearchCriteria: &imap.SearchCriteria{}, SortCriteria: []imapclient.SortCriterion{{Key: imapclient.SortKeyDate, Reverse: true}}})
			return handle{func() (error, string) {
				n, err := cmd.Wait()
				return err, strings.Trim(fmt.Sprint(n), "[]")
			}}
		}},
		{name: "UID SORT", ext: true, class: "sort", dupOf: "SORT", lines: 1, data: []string{"* SORT 9"}, want: "9", issue: func(c *imapclient.Client) handle {
			cmd := c.UIDSort(&imapclient.SortOptions{SearchCriteria: &imap.SearchCriteria{}, SortCriteria: []imapclient.SortCriterion{{Key: imapclient.SortKeySize}}})
			return handle{func() (error, string) {
				n, err := cmd.Wait()
				return err, strings.Trim(fmt.Sprint(n), "[]")
			}}
		}},
		{name: "THREAD", ext: true, class: "thread", lines: 1, data: []string{"* THREAD (1 2)(3 (4)(5))"}, want: "[1 2];[3[4][5]]", issue: func(c *imapclient.Client) handle {
			cmd := c.Thread(&imapclient.ThreadOptions{Algorithm: imap.ThreadReferences, SearchCriteria: &imap.SearchCriteria{}})
			return handle{func() (error, string) {
				d, err := cmd.Wait()
				var render func(t imapclient.ThreadData) string
				render = func(t imapclient.ThreadData) string {
					r := "[" + strings.Trim(fmt.Sprint(t.Chain), "[]")
					for _, sub := range t.SubThreads {
						r += render(sub)
					}
					return r + "]"
				}
				var parts []string
				for _, t := range d {
					parts = append(parts, render(t))
				}
				return err, strings.Join(parts, ";")
			}}
		}},
		{name: "GETQUOTA", ext: true, class: "quota", lines: 1, data: []string{"* QUOTA r1 (STORAGE 10 512)"}, want: "r1 STORAGE=10/512", issue: func(c *imapclient.Client) handle {
			cmd := c.GetQuota("r1")
			return handle{func() (error, string) {
				d, err := cmd.Wait()
				if d == nil {
					return err, ""
				}
				return err, quotaStr(*d)
			}}
		}},
		{name: "GETQUOTAROOT", ext: true, class: "quota", dupOf: "GETQUOTA", lines: 1, data: []string{"* QUOTAROOT INBOX r2", "* QUOTA r2 (MESSAGE 1 2)"}, want: "r2 MESSAGE=1/2", issue: func(c *imapclient.Client) handle {
			cmd := c.GetQuotaRoot("INBOX")
			return handle{func() (error, string) {
				d, err := cmd.Wait()
				var parts []string
				for _, q := range d {
					parts = append(parts, quotaStr(q))
				}
				return err, strings.Join(parts, ";")
			}}
		}},
		{name: "GETMETADATA", ext: true, class: "metadata", lines: 1, data: []string{`* METADATA m (/private/comment "x" /shared/comment NIL)`}, want: "m /private/comment=x /shared/comment=<nil>", issue: func(c *imapclient.Client) handle {
			cmd := c.GetMetadata("m", []string{"/private/comment", "/shared/comment"}, nil)
			return handle{func() (error, string) {
				d, err := cmd.Wait()
				if d == nil || d.Mailbox == "" {
					return err, ""
				}
				var ks []string
				for k := range d.Entries {
					ks = append(ks, k)
				}
				sort.Strings(ks)
				r := d.Mailbox
				for _, k := range ks {
					v := "<nil>"
					if d.Entries[k] != nil {
						v = string(*d.Entries[k])
					}
					r += " " + k + "=" + v
				}
				return err, r
			}}
		}},
		{name: "NAMESPACE", ext: true, class: "namespace", lines: 1, data: []string{`* NAMESPACE (("" "/")) NIL (("shared/" "/"))`}, want: "[{ 47}] [] [{shared/ 47}]", issue: func(c *imapclient.Client) handle {
			cmd := c.Namespace()
			return handle{func() (error, string) {
				d, err := cmd.Wait()
				if d == nil || (d.Personal == nil && d.Shared == nil) {
					return err, ""
				}
				return err, fmt.Sprint(d.Personal, d.Other, d.Shared)
			}}
		}},
		// second commands of an ambiguity class: only issued behind the first one and answered strictly
		// in issue order (what a server that processes commands sequentially does); routing must be FIFO
		{name: "LIST#2", class: "list", dupOf: "LIST", lines: 1, data: []string{`* LIST () "/" second`}, want: "second", issue: func(c *imapclient.Client) handle {
			cmd := c.List("", "s*", nil)
			return handle{func() (error, string) {
				l, err := cmd.Collect()
				var n []string
				for _, d := range l {
					n = append(n, d.Mailbox)
				}
				return err, strings.Join(n, ",")
			}}
		}},
		{name: "SEARCH#2", class: "search", dupOf: "SEARCH", lines: 1, data: []string{"* SEARCH 7"}, want: "7", issue: func(c *imapclient.Client) handle {
			cmd := c.Search(&imap.SearchCriteria{Body: []string{"y"}}, nil)
			return handle{func() (error, string) {
				d, err := cmd.Wait()
				s := ""
				if d != nil && d.All != nil {
					s = d.All.String()
				}
				return err, s
			}}
		}},
		{name: "SEARCH esearch#2", ext: true, class: "search", dupOf: "UID SEARCH esearch", anyOrder: true, lines: 1, data: []string{`* ESEARCH (TAG "%T") ALL 1:2 COUNT 2`}, want: "1:2 count=2", issue: func(c *imapclient.Client) handle {
			cmd := c.Search(&imap.SearchCriteria{}, &imap.SearchOptions{ReturnAll: true, ReturnCount: true})
			return handle{func() (error, string) {
				d, err := cmd.Wait()
				s := ""
				if d != nil && d.All != nil {
					s = fmt.Sprintf("%s count=%d", d.All.String(), d.Count)
				}
				return err, s
			}}
		}},
		{name: "EXPUNGE#2", class: "expunge", dupOf: "EXPUNGE", lines: 1, data: []string{"* 1 EXPUNGE"}, want: "1", issue: func(c *imapclient.Client) handle {
			cmd := c.Expunge()
			return handle{func() (error, string) {
				l, err := cmd.Collect()
				var s []string
				for _, n := range l {
					s = append(s, fmt.Sprint(n))
				}
				return err, strings.Join(s, ",")
			}}
		}},
		{name: "FETCH 3:4", class: "fetch", dupOf: "FETCH 1:2", lines: 1, data: []string{`* 3 FETCH (FLAGS (\Draft))`, `* 4 FETCH (FLAGS ())`}, want: "3:\\Draft;4:", issue: fetchIssue(func() imap.NumSet { var s imap.SeqSet; s.AddRange(3, 4); return s }())},
		{name: "UNSELECT", class: "select", lines: 1, effect: func(m *model) { m.state = "authenticated"; m.mbox = nil }, issue: func(c *imapclient.Client) handle {
			cmd := c.Unselect()
			return handle{func() (error, string) { return cmd.Wait(), "" }}
		}},
	}
}

func quotaStr(q imapclient.QuotaData) string {
	var ks []string
	for k := range q.Resources {
		ks = append(ks, string(k))
	}
	sort.Strings(ks)
	r := q.Root
	for _, k := range ks {
		v := q.Resources[imap.QuotaResourceType(k)]
		r += fmt.Sprintf(" %s=%d/%d", k, v.Usage, v.Limit)
	}
	return r
}

func fetchIssue(set imap.NumSet) func(c *imapclient.Client) handle {
	return func(c *imapclient.Client) handle {
		cmd := c.Fetch(set, &imap.FetchOptions{Flags: true})
		return handle{func() (error, string) { return collectFetch(cmd) }}
	}
}

func collectFetch(cmd *imapclient.FetchCommand) (error, string) {
	l, err := cmd.Collect()
	var s []string
	for _, m := range l {
		s = append(s, fmt.Sprintf("%d:%s", m.SeqNum, flagsStr(m.Flags)))
	}
	return err, strings.Join(s, ";")
}

func appendIssue(c *imapclient.Client) handle {
	cmd := c.Append("INBOX", 3, nil)
	cmd.Write([]byte("abc"))
	cmd.Close()
	return handle{func() (error, string) {
		d, err := cmd.Wait()
		s := ""
		if d != nil {
			s = fmt.Sprintf("%d/%d", d.UIDValidity, d.UID)
		}
		return err, s
	}}
}

// ---------- reference interpreter ----------

type mbox struct {
	name        string
	num         uint32
	flags, perm string
}

type model struct {
	state string // "not authenticated", "authenticated", "selected", "logout"
	mbox  *mbox
}

func (m *model) clone() model {
	c := *m
	if m.mbox != nil {
		mb := *m.mbox
		c.mbox = &mb
	}
	return c
}

// unilateral applies an untagged line that is not command data.
func (m *model) unilateral(line string) {
	f := strings.Fields(line)
	if len(f) < 2 {
		return
	}
	switch {
	case len(f) >= 3 && f[2] == "EXISTS" && m.state == "selected":
		var n uint32
		fmt.Sscan(f[1], &n)
		m.mbox.num = n
	case len(f) >= 3 && f[2] == "EXPUNGE" && m.state == "selected":
		if m.mbox.num > 0 {
			m.mbox.num--
		}
	case f[1] == "FLAGS" && m.state == "selected":
		m.mbox.flags = strings.Trim(strings.Join(f[2:], " "), "()")
	case f[1] == "OK" && len(f) > 2 && f[2] == "[PERMANENTFLAGS" && m.state == "selected":
		i := strings.Index(line, "(")
		j := strings.Index(line, ")")
		m.mbox.perm = line[i+1 : j]
	case f[1] == "OK" && len(f) > 2 && f[2] == "[CLOSED]":
		if m.state == "selected" {
			m.state = "authenticated"
			m.mbox = nil
		}
	}
}

func stateName(s imap.ConnState) string {
	switch s {
	case imap.ConnStateNotAuthenticated:
		return "not authenticated"
	case imap.ConnStateAuthenticated:
		return "authenticated"
	case imap.ConnStateSelected:
		return "selected"
	case imap.ConnStateLogout:
		return "logout"
	}
	return "none"
}

func observe(c *imapclient.Client) string {
	s := stateName(c.State())
	if mb := c.Mailbox(); mb != nil {
		s += fmt.Sprintf(" {%s %d [%s] [%s]}", mb.Name, mb.NumMessages, flagsStr(mb.Flags), flagsStr(mb.PermanentFlags))
	}
	return s
}

func (m *model) String() string {
	s := m.state
	if m.mbox != nil {
		s += fmt.Sprintf(" {%s %d [%s] [%s]}", m.mbox.name, m.mbox.num, m.mbox.flags, m.mbox.perm)
	}
	return s
}

// ---------- scenarios ----------

type outcome struct {
	typ  string // OK, NO, BAD
	code bool
}

func (o outcome) String() string {
	if o.code {
		return o.typ + "+code"
	}
	return o.typ
}

type scenario struct {
	Name     string
	Start    string // "authenticated" or "selected"
	Cmds     []int  // kind indexes, in issue order
	Outcomes []outcome
	Order    []int    // sequence of command indexes: each occurrence delivers that command's next line
	Uni      []string // unilateral lines (part b), delivered in order at position UniAt
	UniCtx   string   // "", "selected", "authenticated", "during-select", "during-idle"
}

type step struct {
	line string
	cmd  int  // command index or -1
	last bool // completion line of cmd
}

type problem struct{ key, detail string }

// runScenario executes one scenario under the scheduler and returns the problems found.
func runScenario(sc *scenario, ks []kind) func() interface{} {
	return func() interface{} {
		var probs []problem
		cEnd, sEnd := vnet.Pair("client", "server")
		_ = sEnd
		c := imapclient.New(cEnd, nil)
		m := &model{state: "authenticated"}
		if sc.Start == "not-authenticated" {
			m.state = "not authenticated"
		}
		clientLines := 0
		var acc []byte
		syncHeaders, syncAnswered := 0, 0
		cEnd.OnWrite = func(b []byte) {
			acc = append(acc, b...)
			clientLines = strings.Count(string(acc), "\r\n")
			if strings.HasSuffix(string(acc), "}\r\n") && !strings.HasSuffix(string(acc), "+}\r\n") {
				syncHeaders++
			}
		}
		quiesce := func() {
			vsched.WaitUntil("quiesce", func() bool { return (cEnd.Waiting() && cEnd.Pending() == 0) || cEnd.Closed() })
		}
		deliver := func(line string, apply func()) {
			cEnd.Deliver([]byte(line + "\r\n"))
			quiesce()
			if apply != nil {
				apply()
			}
		}
		var lastSnap *imapclient.SelectedMailbox
		var lastCopy imapclient.SelectedMailbox
		check := func(at string, selectPending bool) {
			// a snapshot handed out by Mailbox() earlier must never change afterwards (copy-on-write)
			if lastSnap != nil {
				if lastSnap.Name != lastCopy.Name || lastSnap.NumMessages != lastCopy.NumMessages || flagsStr(lastSnap.Flags) != flagsStr(lastCopy.Flags) || flagsStr(lastSnap.PermanentFlags) != flagsStr(lastCopy.PermanentFlags) {
					probs = append(probs, problem{"mailbox-snapshot-mutated", fmt.Sprintf("after %q: a SelectedMailbox returned earlier by Mailbox() changed from %+v to %+v", at, lastCopy, *lastSnap)})
				}
			}
			if lastSnap = c.Mailbox(); lastSnap != nil {
				lastCopy = *lastSnap
			}
			if selectPending {
				return // while a SELECT is in flight the summary is in transition
			}
			got, want := observe(c), m.String()
			if got != want {
				probs = append(probs, problem{"state-mismatch:" + classify(got, want), fmt.Sprintf("after %q: client says %q, transcript implies %q", at, got, want)})
			}
		}
		// the server side of this scenario runs in its own thread, the issuing side in main
		phase := 0
		issued := 0
		var handles []handle
		vsched.Go("server", func() {
			if sc.Start == "not-authenticated" {
				deliver("* OK [CAPABILITY IMAP4rev1 LITERAL- IDLE ENABLE IMAP4rev2 MOVE UIDPLUS ESEARCH UNSELECT] ready", nil)
			} else {
				deliver("* PREAUTH [CAPABILITY IMAP4rev1 LITERAL- IDLE ENABLE IMAP4rev2 MOVE UIDPLUS ESEARCH UNSELECT] ready", nil)
			}
			check("greeting", false)
			tagN := 0
			if sc.Start == "selected" || sc.UniCtx == "selected" || sc.UniCtx == "during-idle" {
				phase = 1
				vsched.WaitUntil("wait select", func() bool { return clientLines >= 1 })
				tagN++
				deliver("* 2 EXISTS", nil)
				deliver("* FLAGS (\\Seen)", nil)
				deliver("* OK [PERMANENTFLAGS (\\Seen)] ok", nil)
				deliver(vimap.Tag(tagN)+" OK [READ-WRITE] selected", func() {
					m.state = "selected"
					m.mbox = &mbox{name: "start", num: 2, flags: "\\Seen", perm: "\\Seen"}
				})
				check("initial select", false)
			}
			phase = 2
			baseLines := clientLines
			want := 0
			for _, k := range sc.Cmds {
				want += ks[k].lines
			}
			if sc.UniCtx == "during-select" || sc.UniCtx == "during-idle" {
				want = 1
			}
			firstTag := tagN + 1
			refused := map[int]bool{}
			for {
				vsched.WaitUntil("wait pipeline", func() bool { return clientLines >= baseLines+want || syncHeaders > syncAnswered || cEnd.Closed() })
				if cEnd.Closed() {
					break
				}
				if syncHeaders <= syncAnswered {
					break
				}
				syncAnswered++
				// which command is it? the sync one in the pipeline
				ci := -1
				for i, k := range sc.Cmds {
					if ks[k].sync {
						ci = i
					}
				}
				if ci >= 0 && sc.Outcomes[ci].typ != "OK" {
					// refuse the literal with the command's tagged completion
					refused[ci] = true
					want-- // the payload line will not be written
					o := sc.Outcomes[ci]
					code := ""
					if o.code {
						code = map[string]string{"NO": "[NONEXISTENT] ", "BAD": "[CLIENTBUG] "}[o.typ]
					}
					deliver(fmt.Sprintf("%s %s %stext", vimap.Tag(firstTag+ci), o.typ, code), nil)
					check("literal refused", false)
				} else {
					deliver("+ go ahead", nil)
				}
			}
			// unilateral part
			if sc.UniCtx != "" {
				if sc.UniCtx == "during-idle" {
					deliver("+ idling", nil)
				}
				for _, u := range sc.Uni {
					deliver(u, func() {
						if sc.UniCtx != "during-select" {
							m.unilateral(u)
						}
					})
					check(u, sc.UniCtx == "during-select")
				}
				if sc.UniCtx == "during-select" {
					deliver(vimap.Tag(firstTag)+" NO [NONEXISTENT] no such mailbox", func() {
						if m.state == "selected" {
							// RFC 9051 §6.3.2: a failed SELECT leaves no mailbox selected
							m.state = "authenticated"
							m.mbox = nil
						}
					})
					check("failed select", false)
				}
				if sc.UniCtx == "during-idle" {
					phase = 3
					vsched.WaitUntil("wait DONE", func() bool { return clientLines >= baseLines+2 })
					deliver(vimap.Tag(firstTag)+" OK idle done", nil)
					check("idle done", false)
				}
				tagN = firstTag
			} else {
				// pipeline part: build each command's line list
				type cl struct {
					lines []string
					next  int
				}
				cls := make([]cl, len(sc.Cmds))
				pendingSelect := map[int]bool{}
				for i, k := range sc.Cmds {
					tag := vimap.Tag(firstTag + i)
					o := sc.Outcomes[i]
					var ls []string
					if o.typ == "OK" {
						for _, d := range ks[k].data {
							ls = append(ls, strings.ReplaceAll(d, "%T", tag))
						}
					}
					code := ""
					if o.code {
						switch o.typ {
						case "OK":
							if ks[k].okCode != "" {
								code = "[" + ks[k].okCode + "] "
							} else {
								code = "[ALERT] "
							}
						case "NO":
							code = "[NONEXISTENT] "
						case "BAD":
							code = "[CLIENTBUG] "
						}
					}
					ls = append(ls, fmt.Sprintf("%s %s %stext", tag, o.typ, code))
					cls[i] = cl{lines: ls}
					if ks[k].class == "select" && ks[k].name != "UNSELECT" {
						pendingSelect[i] = true
					}
				}
				for _, ci := range sc.Order {
					if refused[ci] {
						continue // already completed by the refusal
					}
					x := &cls[ci]
					line := x.lines[x.next]
					x.next++
					lastLine := x.next == len(x.lines)
					k := ks[sc.Cmds[ci]]
					deliver(line, func() {
						if lastLine {
							delete(pendingSelect, ci)
							if sc.Outcomes[ci].typ == "OK" && k.effect != nil {
								k.effect(m)
							} else if sc.Outcomes[ci].typ != "OK" && k.class == "select" && k.name != "UNSELECT" && m.state == "selected" {
								m.state = "authenticated" // failed SELECT leaves no mailbox selected
								m.mbox = nil
							}
						} else if strings.HasPrefix(k.name, "EXPUNGE") && m.state == "selected" && m.mbox.num > 0 {
							m.mbox.num--
						}
					})
					check(line, len(pendingSelect) > 0)
				}
				tagN = firstTag + len(sc.Cmds) - 1
			}
			// the connection must still be usable: a final NOOP succeeds
			phase = 4
			base2 := clientLines
			vsched.WaitUntil("wait final noop", func() bool { return clientLines > base2 || cEnd.Closed() })
			if !cEnd.Closed() {
				tagN++
				deliver(vimap.Tag(tagN)+" OK noop", nil)
			}
			phase = 5
		})
		// ---- issuing side (main thread) ----
		if sc.Start == "selected" || sc.UniCtx == "selected" || sc.UniCtx == "during-idle" {
			vsched.WaitUntil("main: phase1", func() bool { return phase >= 1 })
			if _, err := c.Select("start", nil).Wait(); err != nil {
				probs = append(probs, problem{"setup-select-failed", err.Error()})
			}
		}
		vsched.WaitUntil("main: phase2", func() bool { return phase >= 2 })
		switch sc.UniCtx {
		case "during-select":
			cmd := c.Select("other", nil)
			_, err := cmd.Wait()
			if errString(err) != "NO[NONEXISTENT]" {
				probs = append(probs, problem{"status-mismatch:SELECT", errString(err)})
			}
		case "during-idle":
			idle, err := c.Idle()
			if err != nil {
				probs = append(probs, problem{"idle-failed", err.Error()})
			} else {
				vsched.WaitUntil("main: phase3", func() bool { return phase >= 3 })
				idle.Close()
				if err := idle.Wait(); err != nil {
					probs = append(probs, problem{"idle-wait-failed", err.Error()})
				}
			}
		case "selected", "authenticated":
			cmd := c.Noop()
			_ = cmd
			handles = append(handles, handle{func() (error, string) { return nil, "" }})
			// the unilateral lines are followed by this NOOP's completion in the server thread
		default:
			for _, k := range sc.Cmds {
				handles = append(handles, ks[k].issue(c))
				issued++
			}
		}
		vsched.WaitUntil("main: phase4", func() bool { return phase >= 4 })
		if sc.UniCtx == "" {
			for i, h := range handles {
				k := ks[sc.Cmds[i]]
				o := sc.Outcomes[i]
				err, data := h.wait()
				wantStatus := "OK"
				if o.typ != "OK" {
					code := ""
					if o.code {
						code = map[string]string{"NO": "NONEXISTENT", "BAD": "CLIENTBUG"}[o.typ]
					}
					wantStatus = o.typ + "[" + code + "]"
				}
				if got := errString(err); got != wantStatus {
					probs = append(probs, problem{"status-mismatch:" + k.name + ":" + o.String(), fmt.Sprintf("command %d (%s): got %s want %s", i, k.name, got, wantStatus)})
				} else if o.typ == "OK" {
					want := k.want
					if o.code && k.okCode != "" {
						want = k.wantWithCode
					}
					if data != want {
						probs = append(probs, problem{"data-mismatch:" + k.name, fmt.Sprintf("command %d (%s): got %q want %q", i, k.name, data, want)})
					}
				}
			}
		}
		if err := c.Noop().Wait(); err != nil {
			probs = append(probs, problem{"connection-unusable-afterwards", fmt.Sprintf("final NOOP: %v", err)})
		}
		vsched.WaitUntil("main: phase5", func() bool { return phase >= 5 || cEnd.Closed() })
		cEnd.InjectEOF()
		c.Close()
		return probs
	}
}

func classify(got, want string) string {
	gs, ws := strings.SplitN(got, " {", 2), strings.SplitN(want, " {", 2)
	if gs[0] != ws[0] {
		return "connstate:" + strings.ReplaceAll(gs[0], " ", "-") + "-vs-" + strings.ReplaceAll(ws[0], " ", "-")
	}
	if len(gs) != len(ws) {
		return "mailbox-presence"
	}
	if len(gs) == 2 {
		gf, wf := strings.Fields(gs[1]), strings.Fields(ws[1])
		if len(gf) > 1 && len(wf) > 1 && gf[1] != wf[1] {
			return "mailbox-count"
		}
		return "mailbox-flags"
	}
	return "other"
}

// interleavings of per-command line sequences (shuffle product), as command index sequences
func interleavings(counts []int) [][]int {
	var out [][]int
	rem := append([]int{}, counts...)
	var cur []int
	var rec func()
	rec = func() {
		done := true
		for i := range rem {
			if rem[i] > 0 {
				done = false
				rem[i]--
				cur = append(cur, i)
				rec()
				cur = cur[:len(cur)-1]
				rem[i]++
			}
		}
		if done {
			out = append(out, append([]int{}, cur...))
		}
	}
	rec()
	return out
}

// item is a unit of work: one (start state, pipeline) or one (context, first unilateral line);
// its scenarios are generated on the fly by expand.
type item struct {
	Start string
	Cmds  []int
	Ctx   string
	First string
}

// third: the kinds allowed as the third command of a pipeline (one per response-routing mechanism)
var third = map[string]bool{"NOOP": true, "STATUS a": true, "LIST": true, "FETCH 1:2": true, "SEARCH": true, "UID SEARCH esearch": true,
	"EXPUNGE": true, "SELECT m": true, "APPEND sync": true, "COPY": true, "UNSELECT": true}

func enumerate(ks []kind, thorough bool) []item {
	var items []item
	maxCmds := 2
	if thorough {
		maxCmds = 3
	}
	var rec func(prefix []int)
	rec = func(prefix []int) {
		if len(prefix) > 0 {
			for _, start := range []string{"authenticated", "selected"} {
				items = append(items, item{Start: start, Cmds: append([]int{}, prefix...)})
			}
			if len(prefix) <= 2 {
				// before authentication every command is refused: the state must not move
				items = append(items, item{Start: "not-authenticated", Cmds: append([]int{}, prefix...)})
			}
		}
		if len(prefix) > maxCmds {
			return
		}
		for k := 0; k < len(ks); k++ {
			if len(prefix) == maxCmds && ks[k].dupOf == "" {
				continue // one extra position only for the second command of an ambiguity class
			}
			ok := true
			if len(prefix) == 2 && ks[k].dupOf == "" && !third[ks[k].name] {
				ok = false // thorough tier: the third command of a pipeline comes from a representative subset
			}
			if len(prefix) >= 2 && ks[k].dupOf == "" {
				for _, p := range prefix {
					if ks[p].ext {
						ok = false
					}
				}
				if ks[k].ext {
					ok = false
				}
			}
			hasBase := ks[k].dupOf == ""
			for _, p := range prefix {
				if p == k || (ks[k].class != "" && ks[p].class == ks[k].class && ks[k].dupOf != ks[p].name) {
					ok = false
				}
				if ks[k].dupOf != "" && ks[p].name == ks[k].dupOf {
					hasBase = true
				}
			}
			if ok && hasBase {
				rec(append(prefix, k))
			}
		}
	}
	rec(nil)
	for _, ctx := range []string{"selected", "authenticated", "during-select", "during-idle"} {
		for _, u := range uniLines {
			items = append(items, item{Ctx: ctx, First: u})
		}
	}
	return items
}

var uniLines = []string{"* 5 EXISTS", "* 2 EXISTS", "* 1 EXISTS", "* 1 EXPUNGE", "* FLAGS (\\Answered \\Seen)", "* OK [PERMANENTFLAGS (\\Deleted)] ok", "* 1 FETCH (FLAGS (\\Seen))", "* OK [CLOSED] closed", "* OK [ALERT] hello"}

// expand calls f for every scenario of the item.
func expand(it item, ks []kind, thorough bool, f func(sc *scenario)) {
	if it.Ctx != "" {
		ulen := 3
		if thorough {
			ulen = 4
		}
		var urec func(prefix []string)
		urec = func(prefix []string) {
			sc := scenario{UniCtx: it.Ctx, Uni: append([]string{}, prefix...)}
			sc.Name = describe(&sc, ks)
			f(&sc)
			if len(prefix) == ulen {
				return
			}
			for _, u := range uniLines {
				urec(append(prefix, u))
			}
		}
		urec([]string{it.First})
		return
	}
	outcomes := []outcome{{"OK", false}, {"OK", true}, {"NO", false}, {"NO", true}, {"BAD", false}}
	if it.Start == "not-authenticated" {
		outcomes = []outcome{{"NO", false}, {"BAD", false}}
	}
	if len(it.Cmds) >= 3 {
		outcomes = []outcome{{"OK", false}, {"NO", true}, {"BAD", false}}
		if ks[it.Cmds[2]].dupOf == "" {
			// a full triple (thorough tier only): two outcomes per command
			outcomes = []outcome{{"OK", false}, {"NO", true}}
		}
	}
	p := it.Cmds
	var orec func(prefix []outcome)
	orec = func(prefix []outcome) {
		if len(prefix) == len(p) {
			counts := make([]int, len(p))
			for i, k := range p {
				counts[i] = 1
				if prefix[i].typ == "OK" {
					counts[i] += len(ks[k].data)
				}
			}
			for _, ord := range interleavings(counts) {
				if !sequentialPerClass(ord, p, ks) {
					continue
				}
				sc := scenario{Start: it.Start, Cmds: p, Outcomes: append([]outcome{}, prefix...), Order: ord}
				sc.Name = describe(&sc, ks)
				f(&sc)
			}
			return
		}
		for _, o := range outcomes {
			orec(append(prefix, o))
		}
	}
	orec(nil)
}

// sequentialPerClass: two commands of one ambiguity class are answered one after the other, in
// issue order (every line of the first before any line of the second).
func sequentialPerClass(ord []int, cmds []int, ks []kind) bool {
	for i := range cmds {
		for j := i + 1; j < len(cmds); j++ {
			if ks[cmds[i]].class == "" || ks[cmds[i]].class != ks[cmds[j]].class {
				continue
			}
			if ks[cmds[j]].anyOrder && ks[cmds[j]].dupOf == ks[cmds[i]].name {
				continue // tagged data: unambiguous, any answer order
			}
			lastI, firstJ := -1, len(ord)
			for pos, c := range ord {
				if c == i {
					lastI = pos
				}
				if c == j && pos < firstJ {
					firstJ = pos
				}
			}
			if lastI > firstJ {
				return false
			}
		}
	}
	return true
}

func describe(sc *scenario, ks []kind) string {
	if sc.UniCtx != "" {
		return "unilateral/" + sc.UniCtx + "/" + strings.Join(sc.Uni, "|")
	}
	var s []string
	for i, k := range sc.Cmds {
		s = append(s, ks[k].name+"="+sc.Outcomes[i].String())
	}
	return "pipeline/" + sc.Start + "/" + strings.Join(s, ",") + "/order=" + fmt.Sprint(sc.Order)
}

func main() {
	run := vk.Start("C12", "model_checking")
	vimap.Tag(1) // learn the client's tag syntax before any controlled execution
	ks := kinds()
	items := enumerate(ks, run.Thorough())
	mk := func(sc *scenario) *vx.Scenario {
		return &vx.Scenario{
			Name: sc.Name,
			Body: runScenario(sc, ks),
			Sig:  func(res *vsched.Result, obs interface{}) string { return fmt.Sprint(obs) },
			Check: func(res *vsched.Result, obs interface{}) (string, string) {
				if len(res.Panics) > 0 {
					return "panic", strings.Join(res.Panics, "\n")
				}
				if res.Verdict != "ok" {
					return "verdict-" + res.Verdict, strings.Join(res.Blocked, "; ")
				}
				probs, _ := obs.([]problem)
				if len(probs) > 0 {
					return probs[0].key, probs[0].detail
				}
				return "", ""
			},
		}
	}
	if run.Replay != "" {
		b, _ := os.ReadFile(run.Replay)
		var f struct{ Detail struct{ Scenario string } }
		json.Unmarshal(b, &f)
		for _, it := range items {
			expand(it, ks, true, func(s *scenario) {
				if s.Name != f.Detail.Scenario || run.NumViolations() > 0 {
					return
				}
				sc := mk(s)
				res, obs := vx.RunOnce(sc, nil, 20000, true)
				fmt.Printf("scenario %s\nverdict=%s\nproblems=%+v\nblocked=%v\n", sc.Name, res.Verdict, obs, res.Blocked)
				if key, detail := sc.Check(res, obs); key != "" {
					run.Violation(key, map[string]interface{}{"scenario": sc.Name, "detail": detail})
				}
				run.AddEvals(1)
			})
		}
		run.Finish()
	}
	thorough := run.Thorough()
	results := vx.Sharded(len(items), func(i int) vx.ItemResult {
		r := vx.ItemResult{Name: fmt.Sprintf("item%d", i), Exhaustive: true, Outcomes: map[string]int64{}, Verdicts: map[string]int64{}}
		expand(items[i], ks, thorough, func(s *scenario) {
			if r.EngineErr != "" {
				return
			}
			sc := mk(s)
			res, obs := vx.RunOnce(sc, nil, 20000, false)
			r.Executions++
			r.Points += int64(res.Steps)
			if res.EngineErr != "" {
				r.EngineErr = res.EngineErr
				return
			}
			if r.Name[0] == 'i' {
				r.Name = sc.Name // first scenario of the item as its label
			}
			if key, detail := sc.Check(res, obs); key != "" {
				dup := false
				for _, f := range r.Failures {
					if f.Key == key {
						dup = true
					}
				}
				if !dup {
					r.Failures = append(r.Failures, vx.FailureRec{Key: key, Name: sc.Name, Detail: detail, Blocked: res.Blocked, Panics: res.Panics})
				}
			}
		})
		return r
	})
	var total int64
	for i, r := range results {
		if r.EngineErr != "" {
			run.EngineError("%s", r.EngineErr)
		}
		run.AddEvals(r.Executions)
		total += r.Executions
		run.Trans += r.Points
		run.Traces += r.Executions
		for _, f := range r.Failures {
			run.Violation(f.Key, map[string]interface{}{"scenario": f.Name, "detail": f.Detail, "blocked": f.Blocked, "panics": f.Panics})
		}
		if i%131 == 0 {
			run.Sample("item", map[string]interface{}{"first_scenario": r.Name, "scenarios": r.Executions})
		}
	}
	run.States = total
	run.NontrivialN(total)
	run.Set("work_items", int64(len(items)))
	run.Set("command_kinds", int64(len(ks)))
	run.Exhaustive = true
	run.Rule = "scenario = (start state in {authenticated, selected; not authenticated with every command refused}, pipeline of <=2 (3 thorough, the third one from an 11-kind subset) pairwise-unambiguous commands from 32 kinds (NOOP, three STATUS incl. two names differing by case only, LIST, 4 FETCH forms, STORE, SEARCH, ESEARCH, EXPUNGE, SELECT, CAPABILITY, two APPEND forms, COPY, ENABLE, UNSELECT, SORT, THREAD, GETQUOTA, GETMETADATA, NAMESPACE; a second LIST / SEARCH / EXPUNGE / FETCH / UID SORT / GETQUOTAROOT only behind the first of its ambiguity class and answered in issue order; a second ESEARCH behind the first one answered in any order since its data carries the tag; one FETCH answered in descending order), outcome per command in {OK, OK [code], NO, NO [code], BAD}, one interleaving of all response lines that keeps each command's own lines in order) or (context in {selected, authenticated, during a failing SELECT, during IDLE}, sequence of <=3 (4) unilateral responses from 9); each executed once on the real client (default schedule) with a state/mailbox comparison after every server line and a status/data comparison per command, then a final NOOP. states = scenarios, transitions = scheduling points, traces = executions"
	run.Assume("while a SELECT is in flight the mailbox summary is not compared (the transcript does not determine it)")
	run.Assume("a failed SELECT in selected state leaves no mailbox selected (RFC 9051 §6.3.2); BYE alone does not change the reported state")
	run.Finish()
}
