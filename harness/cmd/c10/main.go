// C10 — every client command terminates whatever happens to the connection.
// A real imapclient.Client runs under the vsched controlled scheduler against a scripted server.
// For every transcript of the corpus and every byte offset of the server→client stream the
// connection is cut with EOF / a read error / a stall followed by the client's own read timeout
// or by the application's Close; and for every client write call a write error is injected. On
// top of the fault, all schedules within the deviation bound are explored. The verdict is the
// scheduler's: every thread (callers, Close, the client's reader and helpers) must finish.
package main

import (
	"encoding/json"
	"fmt"
	"io"
	"os"
	"strings"

	imap "github.com/emersion/go-imap/v2"
	"github.com/emersion/go-imap/v2/imapclient"
	"github.com/emersion/go-imap/v2/internal/vsched"
	"github.com/emersion/go-imap/v2/verif/vimap"
	"github.com/emersion/go-imap/v2/verif/vk"
	"github.com/emersion/go-imap/v2/verif/vnet"
	"github.com/emersion/go-imap/v2/verif/vx"
	"github.com/emersion/go-sasl"
)

// ---- transcript DSL ----

type step struct {
	afterLines int    // deliver once the client has written at least this many CRLFs in total
	send       string // server bytes
}

// rec records what the caller observed.
type rec struct {
	results []result
}

type result struct {
	Label    string
	Tag      int // 1-based issue order of the command (its tag is T<Tag>); 0 = not a tagged command
	Err      string
	OK       bool
	MustFail bool // the transcript never carries this command's completion: success is a violation
}

func (r *rec) done(label string, tag int, err error) {
	res := result{Label: label, Tag: tag, OK: err == nil}
	if err != nil {
		res.Err = err.Error()
		if len(res.Err) > 80 {
			res.Err = res.Err[:80]
		}
	}
	r.results = append(r.results, res)
}

// mustFail records a command whose tagged completion does not exist in the transcript at all.
func (r *rec) mustFail(label string, err error) {
	r.done(label, 0, err)
	r.results[len(r.results)-1].MustFail = true
}

type transcript struct {
	name   string
	steps  []step
	caller func(c *imapclient.Client, r *rec)
	// closeAfter: the server closes the connection right after its last step (the transcript leaves
	// a command unanswered on purpose)
	closeAfter bool
	// coarse: read faults at line boundaries only (long transcripts whose lines are all alike)
	coarse bool
}

const greetPlus = "* OK [CAPABILITY IMAP4rev1 LITERAL+ SASL-IR IDLE NAMESPACE MOVE ENABLE UIDPLUS ESEARCH IMAP4rev2 LIST-STATUS] ready\r\n"
const greetPlain = "* OK [CAPABILITY IMAP4rev1] ready\r\n"
const preauth = "* PREAUTH [CAPABILITY IMAP4rev1 LITERAL+ IDLE MOVE UIDPLUS ESEARCH LIST-STATUS] ready\r\n"

func readAllItems(msg *imapclient.FetchMessageData) {
	for {
		item := msg.Next()
		if item == nil {
			return
		}
		switch it := item.(type) {
		case imapclient.FetchItemDataBodySection:
			if it.Literal != nil {
				io.Copy(io.Discard, it.Literal)
			}
		case imapclient.FetchItemDataBinarySection:
			if it.Literal != nil {
				io.Copy(io.Discard, it.Literal)
			}
		}
	}
}

func corpus() []transcript {
	var ts []transcript
	add := func(name string, steps []step, caller func(c *imapclient.Client, r *rec)) {
		// the transcripts are written with the placeholder tags T1, T2, …: put the client's real ones in
		for i := range steps {
			steps[i].send = vimap.Retag(steps[i].send)
		}
		ts = append(ts, transcript{name: name, steps: steps, caller: caller, closeAfter: strings.Contains(name, "-with-pending-")})
	}
	add("greeting", []step{{0, greetPlain}}, func(c *imapclient.Client, r *rec) {
		r.done("WaitGreeting", 0, c.WaitGreeting())
	})
	add("greeting-bye", []step{{0, "* BYE go away\r\n"}}, func(c *imapclient.Client, r *rec) {
		c.WaitGreeting()
		r.done("WaitGreeting", 0, nil)
	})
	add("login", []step{{0, greetPlain}, {1, "T1 OK [CAPABILITY IMAP4rev1 IDLE] logged in\r\n"}}, func(c *imapclient.Client, r *rec) {
		r.done("Login", 1, c.Login("u", "p").Wait())
	})
	add("login-no", []step{{0, greetPlain}, {1, "T1 NO [AUTHENTICATIONFAILED] nope\r\n"}}, func(c *imapclient.Client, r *rec) {
		c.Login("u", "p").Wait()
		r.done("Login", 0, nil)
	})
	add("login-then-caps", []step{{0, "* OK ready\r\n"}, {1, "* CAPABILITY IMAP4rev1\r\nT1 OK caps\r\n"}, {2, "T2 OK logged in\r\n"}, {3, "* CAPABILITY IMAP4rev1 IDLE\r\nT3 OK caps\r\n"}}, func(c *imapclient.Client, r *rec) {
		// greeting without capabilities: the client requests them in the background (T1)
		c.Caps()
		r.done("Login", 2, c.Login("u", "p").Wait())
		c.Caps() // invalidated by LOGIN without a code: background CAPABILITY (T3)
		r.done("Caps", 0, nil)
	})
	selectResp := "* 3 EXISTS\r\n* 0 RECENT\r\n* OK [UIDVALIDITY 1] ok\r\n* OK [UIDNEXT 4] ok\r\n* FLAGS (\\Seen \\Deleted)\r\n* OK [PERMANENTFLAGS (\\Seen \\*)] ok\r\n* LIST () \"/\" INBOX\r\nT1 OK [READ-WRITE] done\r\n"
	add("select", []step{{0, preauth}, {1, selectResp}}, func(c *imapclient.Client, r *rec) {
		_, err := c.Select("INBOX", nil).Wait()
		r.done("Select", 1, err)
	})
	fetchResp := "* 1 FETCH (UID 5 FLAGS (\\Seen) BODY[] {5}\r\nhello)\r\n* 2 FETCH (UID 6 BODY[HEADER.FIELDS (To)] {3}\r\nabc INTERNALDATE \"17-Jul-1996 02:44:25 -0700\" RFC822.SIZE 44)\r\nT1 OK done\r\n"
	fo := &imap.FetchOptions{UID: true, Flags: true, BodySection: []*imap.FetchItemBodySection{{}}}
	add("fetch-collect", []step{{0, preauth}, {1, fetchResp}}, func(c *imapclient.Client, r *rec) {
		_, err := c.Fetch(imap.SeqSetNum(1, 2), fo).Collect()
		r.done("Fetch.Collect", 1, err)
	})
	add("fetch-next-read", []step{{0, preauth}, {1, fetchResp}}, func(c *imapclient.Client, r *rec) {
		cmd := c.Fetch(imap.SeqSetNum(1, 2), fo)
		for {
			msg := cmd.Next()
			if msg == nil {
				break
			}
			readAllItems(msg)
		}
		r.done("Fetch.Close", 1, cmd.Close())
	})
	add("fetch-next-skip", []step{{0, preauth}, {1, fetchResp}}, func(c *imapclient.Client, r *rec) {
		cmd := c.Fetch(imap.SeqSetNum(1, 2), fo)
		if msg := cmd.Next(); msg != nil {
			msg.Next() // look at one item only, the rest is skipped by the next Next
		}
		r.done("Fetch.Close", 1, cmd.Close())
	})
	add("uid-fetch", []step{{0, preauth}, {1, "* 1 FETCH (UID 5 BODY[TEXT] {2}\r\nhi)\r\nT1 OK done\r\n"}}, func(c *imapclient.Client, r *rec) {
		_, err := c.Fetch(imap.UIDSetNum(5), &imap.FetchOptions{BodySection: []*imap.FetchItemBodySection{{Specifier: imap.PartSpecifierText}}}).Collect()
		r.done("UIDFetch.Collect", 1, err)
	})
	many := "* 1 FETCH (" + strings.TrimSpace(strings.Repeat("FLAGS (\\Seen) ", 40)) + ")\r\nT1 OK done\r\n"
	add("fetch-many-items", []step{{0, preauth}, {1, many}}, func(c *imapclient.Client, r *rec) {
		_, err := c.Fetch(imap.SeqSetNum(1), &imap.FetchOptions{Flags: true}).Collect()
		r.done("Fetch.Collect", 1, err)
	})
	add("unsolicited-fetch-literal", []step{{0, preauth}, {1, "* 7 FETCH (FLAGS (\\Seen) BODY[] {3}\r\nabc)\r\nT1 OK done\r\n"}}, func(c *imapclient.Client, r *rec) {
		r.done("Noop", 1, c.Noop().Wait())
	})
	add("store", []step{{0, preauth}, {1, "* 1 FETCH (FLAGS (\\Seen))\r\nT1 OK done\r\n"}}, func(c *imapclient.Client, r *rec) {
		_, err := c.Store(imap.SeqSetNum(1), &imap.StoreFlags{Op: imap.StoreFlagsAdd, Flags: []imap.Flag{imap.FlagSeen}}, nil).Collect()
		r.done("Store.Collect", 1, err)
	})
	add("expunge-many", []step{{0, preauth}, {1, strings.Repeat("* 1 EXPUNGE\r\n", 130) + "T1 OK done\r\n"}}, func(c *imapclient.Client, r *rec) {
		_, err := c.Expunge().Collect()
		r.done("Expunge.Collect", 1, err)
	})
	add("list", []step{{0, preauth}, {1, "* LIST (\\HasNoChildren) \"/\" INBOX\r\n* LIST () \"/\" \"a b\"\r\n* LIST () NIL {3}\r\nx y\r\nT1 OK done\r\n"}}, func(c *imapclient.Client, r *rec) {
		_, err := c.List("", "*", nil).Collect()
		r.done("List.Collect", 1, err)
	})
	add("list-status", []step{{0, preauth}, {1, "* LIST () \"/\" INBOX\r\n* STATUS INBOX (MESSAGES 1 UNSEEN 0)\r\n* LIST () \"/\" b\r\nT1 OK done\r\n"}}, func(c *imapclient.Client, r *rec) {
		cmd := c.List("", "*", &imap.ListOptions{ReturnStatus: &imap.StatusOptions{NumMessages: true, NumUnseen: true}})
		for cmd.Next() != nil {
		}
		r.done("List.Close", 1, cmd.Close())
	})
	add("status", []step{{0, preauth}, {1, "* STATUS INBOX (MESSAGES 1 UIDNEXT 2)\r\nT1 OK done\r\n"}}, func(c *imapclient.Client, r *rec) {
		_, err := c.Status("INBOX", &imap.StatusOptions{NumMessages: true, UIDNext: true}).Wait()
		r.done("Status", 1, err)
	})
	add("search", []step{{0, "* PREAUTH [CAPABILITY IMAP4rev1] ready\r\n"}, {1, "* SEARCH 1 2 3\r\nT1 OK done\r\n"}}, func(c *imapclient.Client, r *rec) {
		_, err := c.Search(&imap.SearchCriteria{Body: []string{"x"}}, nil).Wait()
		r.done("Search", 1, err)
	})
	add("esearch", []step{{0, preauth}, {1, "* ESEARCH (TAG \"T1\") UID ALL 1:3,5 COUNT 4\r\nT1 OK done\r\n"}}, func(c *imapclient.Client, r *rec) {
		_, err := c.UIDSearch(&imap.SearchCriteria{}, &imap.SearchOptions{ReturnAll: true, ReturnCount: true}).Wait()
		r.done("UIDSearch", 1, err)
	})
	add("copy", []step{{0, preauth}, {1, "T1 OK [COPYUID 1 5 9] done\r\n"}}, func(c *imapclient.Client, r *rec) {
		_, err := c.Copy(imap.SeqSetNum(1), "dst").Wait()
		r.done("Copy", 1, err)
	})
	add("move", []step{{0, preauth}, {1, "* OK [COPYUID 1 5 9] moved\r\n* 1 EXPUNGE\r\nT1 OK done\r\n"}}, func(c *imapclient.Client, r *rec) {
		_, err := c.Move(imap.SeqSetNum(1), "dst").Wait()
		r.done("Move", 1, err)
	})
	add("move-fallback", []step{{0, "* PREAUTH [CAPABILITY IMAP4rev1] ready\r\n"}, {1, "T1 OK [COPYUID 1 5 9] done\r\n"}, {2, "* 1 FETCH (FLAGS (\\Deleted))\r\nT2 OK done\r\n"}, {3, "* 1 EXPUNGE\r\nT3 OK done\r\n"}}, func(c *imapclient.Client, r *rec) {
		_, err := c.Move(imap.SeqSetNum(1), "dst").Wait()
		r.done("Move", 3, err)
	})
	// the client itself is the consumer of the fallback's STORE and EXPUNGE streams: more items than
	// their channels buffer (128)
	add("move-fallback-many", []step{{0, "* PREAUTH [CAPABILITY IMAP4rev1] ready\r\n"}, {1, "T1 OK [COPYUID 1 1:130 201:330] done\r\n"}, {2, strings.Repeat("* 1 FETCH (FLAGS (\\Deleted))\r\n", 130) + "T2 OK done\r\n"}, {3, strings.Repeat("* 1 EXPUNGE\r\n", 130) + "T3 OK done\r\n"}}, func(c *imapclient.Client, r *rec) {
		var set imap.SeqSet
		set.AddRange(1, 130)
		_, err := c.Move(set, "dst").Wait()
		r.done("Move", 3, err)
	})
	ts[len(ts)-1].coarse = true
	add("append-nonsync", []step{{0, "* PREAUTH [CAPABILITY IMAP4rev1 LITERAL-] ready\r\n"}, {2, "T1 OK [APPENDUID 1 7] done\r\n"}}, func(c *imapclient.Client, r *rec) {
		if c.WaitGreeting() != nil { // capabilities decide the literal form
			r.done("WaitGreeting", 0, nil)
			return
		}
		cmd := c.Append("INBOX", 5, nil)
		cmd.Write([]byte("hello"))
		cmd.Close()
		_, err := cmd.Wait()
		r.done("Append", 1, err)
	})
	add("append-sync", []step{{0, "* PREAUTH [CAPABILITY IMAP4rev1] ready\r\n"}, {1, "+ go ahead\r\n"}, {2, "T1 OK [APPENDUID 1 7] done\r\n"}}, func(c *imapclient.Client, r *rec) {
		cmd := c.Append("INBOX", 5, &imap.AppendOptions{Flags: []imap.Flag{imap.FlagSeen}})
		cmd.Write([]byte("hello"))
		cmd.Close()
		_, err := cmd.Wait()
		r.done("Append", 1, err)
	})
	add("append-sync-refused", []step{{0, "* PREAUTH [CAPABILITY IMAP4rev1] ready\r\n"}, {1, "T1 NO [TOOBIG] no\r\n"}}, func(c *imapclient.Client, r *rec) {
		cmd := c.Append("INBOX", 5, nil)
		cmd.Write([]byte("hello"))
		cmd.Close()
		cmd.Wait()
		r.done("Append", 0, nil)
	})
	add("login-sync-literal", []step{{0, greetPlain}, {1, "+ ok\r\n"}, {2, "T1 OK [CAPABILITY IMAP4rev1] done\r\n"}}, func(c *imapclient.Client, r *rec) {
		r.done("Login", 1, c.Login("us\"er\x80", "p").Wait())
	})
	// two synchronising literals; the server grants the first and then fails the command at once,
	// before the client has announced the second one
	add("login-two-literals-early-no", []step{{0, greetPlain}, {1, "+ ok\r\nT1 NO [AUTHENTICATIONFAILED] no\r\n"}}, func(c *imapclient.Client, r *rec) {
		c.Login("us\"er\x80", "pa\nss").Wait()
		r.done("Login", 0, nil)
	})
	add("login-two-literals-second-refused", []step{{0, greetPlain}, {1, "+ ok\r\n"}, {2, "T1 BAD too long\r\n"}}, func(c *imapclient.Client, r *rec) {
		c.Login("us\"er\x80", "pa\nss").Wait()
		r.done("Login", 0, nil)
	})
	add("idle", []step{{0, preauth}, {1, "+ idling\r\n* 4 EXISTS\r\n* 1 EXPUNGE\r\n"}, {2, "T1 OK done\r\n"}}, func(c *imapclient.Client, r *rec) {
		idle, err := c.Idle()
		if err != nil {
			r.done("Idle", 1, err)
			return
		}
		cerr := idle.Close()
		werr := idle.Wait()
		if cerr != nil && werr == nil {
			werr = cerr
		}
		r.done("Idle.Wait", 1, werr)
	})
	add("idle-refused", []step{{0, preauth}, {1, "T1 BAD no idle\r\n"}}, func(c *imapclient.Client, r *rec) {
		idle, err := c.Idle()
		if err == nil {
			idle.Close()
			idle.Wait()
		}
		r.done("Idle", 0, nil)
	})
	add("authenticate-ir", []step{{0, greetPlus}, {1, "T1 OK [CAPABILITY IMAP4rev1] done\r\n"}}, func(c *imapclient.Client, r *rec) {
		r.done("Authenticate", 1, c.Authenticate(sasl.NewPlainClient("", "u", "p")))
	})
	add("authenticate", []step{{0, greetPlain}, {1, "+ \r\n"}, {2, "T1 OK [CAPABILITY IMAP4rev1] done\r\n"}}, func(c *imapclient.Client, r *rec) {
		r.done("Authenticate", 1, c.Authenticate(sasl.NewPlainClient("", "u", "p")))
	})
	add("authenticate-login-2step", []step{{0, greetPlain}, {1, "+ \r\n"}, {2, "+ UGFzc3dvcmQ6\r\n"}, {3, "T1 OK [CAPABILITY IMAP4rev1] done\r\n"}}, func(c *imapclient.Client, r *rec) {
		r.done("Authenticate", 1, c.Authenticate(sasl.NewLoginClient("u", "p")))
	})
	add("authenticate-no", []step{{0, greetPlain}, {1, "T1 NO nope\r\n"}}, func(c *imapclient.Client, r *rec) {
		c.Authenticate(sasl.NewPlainClient("", "u", "p"))
		r.done("Authenticate", 0, nil)
	})
	add("pipeline", []step{{0, preauth}, {3, "T1 OK a\r\n* STATUS INBOX (MESSAGES 1)\r\nT2 OK b\r\nT3 OK c\r\n"}}, func(c *imapclient.Client, r *rec) {
		n1 := c.Noop()
		st := c.Status("INBOX", &imap.StatusOptions{NumMessages: true})
		n2 := c.Noop()
		r.done("Noop1", 1, n1.Wait())
		_, err := st.Wait()
		r.done("Status", 2, err)
		r.done("Noop2", 3, n2.Wait())
	})
	add("pipeline-reordered", []step{{0, preauth}, {3, "T3 OK c\r\n* STATUS INBOX (MESSAGES 1)\r\nT2 NO b\r\nT1 OK a\r\n"}}, func(c *imapclient.Client, r *rec) {
		n1 := c.Noop()
		st := c.Status("INBOX", &imap.StatusOptions{NumMessages: true})
		n2 := c.Noop()
		r.done("Noop1", 1, n1.Wait())
		st.Wait()
		r.done("Noop2", 3, n2.Wait())
	})
	add("enable", []step{{0, preauth[:len(preauth)-9] + " ENABLE IMAP4rev2] ready\r\n"}, {1, "* ENABLED IMAP4rev2\r\nT1 OK done\r\n"}}, func(c *imapclient.Client, r *rec) {
		_, err := c.Enable(imap.CapIMAP4rev2).Wait()
		r.done("Enable", 1, err)
	})
	add("namespace", []step{{0, greetPlus}, {1, "* NAMESPACE ((\"\" \"/\")) NIL ((\"shared/\" \"/\"))\r\nT1 OK done\r\n"}}, func(c *imapclient.Client, r *rec) {
		_, err := c.Namespace().Wait()
		r.done("Namespace", 1, err)
	})
	add("logout", []step{{0, preauth}, {1, "* BYE bye\r\nT1 OK done\r\n"}}, func(c *imapclient.Client, r *rec) {
		r.done("Logout", 1, c.Logout().Wait())
	})
	// pipelined behind LOGOUT: the server says BYE, completes LOGOUT and closes; the second command
	// never gets a completion and must fail, whatever the state of the connection
	add("logout-with-pending-select", []step{{0, preauth}, {2, "* BYE bye\r\nT1 OK done\r\n"}}, func(c *imapclient.Client, r *rec) {
		lo := c.Logout()
		sel := c.Select("INBOX", nil)
		r.done("Logout", 1, lo.Wait())
		_, err := sel.Wait()
		r.mustFail("Select", err)
	})
	add("noop-with-pending-fetch", []step{{0, preauth}, {2, "T1 OK done\r\n* 1 FETCH (FLAGS ())\r\n"}}, func(c *imapclient.Client, r *rec) {
		n := c.Noop()
		f := c.Fetch(imap.SeqSetNum(1), &imap.FetchOptions{Flags: true})
		r.done("Noop", 1, n.Wait())
		_, err := f.Collect()
		r.mustFail("Fetch", err)
	})
	add("create-delete-rename", []step{{0, preauth}, {1, "T1 OK a\r\n"}, {2, "T2 NO b\r\n"}, {3, "T3 OK c\r\n"}}, func(c *imapclient.Client, r *rec) {
		r.done("Create", 1, c.Create("a", nil).Wait())
		c.Delete("b").Wait()
		r.done("Rename", 3, c.Rename("a", "c").Wait())
	})
	return ts
}

// ---- faults ----

type fault struct {
	Kind   string // "none", "eof", "error", "stall-timeout-or-close", "stall-close", "write-error"
	Offset int    // bytes of the server stream delivered before the fault (or write-call index)
}

type scenarioID struct {
	T     int
	Fault fault
}

// stream returns the whole server→client stream and, per tag number, the offset just after its
// tagged completion line.
func stream(t *transcript) (string, map[int]int) {
	var sb strings.Builder
	for _, s := range t.steps {
		sb.WriteString(s.send)
	}
	all := sb.String()
	compl := map[int]int{}
	pos := 0
	for pos < len(all) {
		i := strings.Index(all[pos:], "\r\n")
		if i < 0 {
			break
		}
		line := all[pos : pos+i]
		if sp := strings.IndexByte(line, ' '); sp > 0 {
			if tag := vimap.Index(line[:sp]); tag > 0 {
				compl[tag] = pos + i + 2
			}
		}
		pos += i + 2
	}
	return all, compl
}

type observation struct {
	Results   []result
	CloseErr  string
	Delivered int
	Writes    int
}

func build(t *transcript, f fault) *vx.Scenario {
	total, compl := stream(t)
	return &vx.Scenario{
		Name: fmt.Sprintf("%s/%s@%d", t.name, f.Kind, f.Offset),
		Body: func() interface{} {
			cEnd, sEnd := vnet.Pair("client", "server")
			if f.Kind == "write-error" {
				cEnd.FailWriteAt = f.Offset
			}
			clientLines := 0
			var acc []byte
			sEnd.OnWrite = nil
			cEnd.OnWrite = func(b []byte) {
				acc = append(acc, b...)
				clientLines = strings.Count(string(acc), "\r\n")
			}
			c := imapclient.New(cEnd, nil)
			r := &rec{}
			callerDone := false
			limit := len(total)
			if f.Kind != "none" && f.Kind != "write-error" {
				limit = f.Offset
			}
			delivered := 0
			vsched.Go("server", func() {
				for _, s := range t.steps {
					s := s
					vsched.WaitUntil("server waits for client lines", func() bool { return clientLines >= s.afterLines || cEnd.Closed() })
					if cEnd.Closed() {
						return
					}
					chunk := s.send
					if delivered+len(chunk) > limit {
						chunk = chunk[:limit-delivered]
					}
					if len(chunk) > 0 {
						vsched.Yield("server deliver")
						cEnd.Deliver([]byte(chunk))
						delivered += len(chunk)
					}
					if delivered >= limit && limit < len(total) {
						break
					}
				}
				switch f.Kind {
				case "none", "write-error":
					// a well-behaved server closes after the transcript once the client is done
					if !t.closeAfter {
						vsched.WaitUntil("server waits for caller", func() bool { return callerDone || cEnd.Closed() })
					}
					cEnd.InjectEOF()
				case "eof":
					cEnd.InjectEOF()
				case "error":
					cEnd.InjectReadError(vnet.ErrReset)
				case "stall-timeout-or-close", "stall-close":
					// wait until the client has consumed everything and sits in Read
					vsched.WaitUntil("stall: wait for client reader to park", func() bool { return (cEnd.Waiting() && cEnd.Pending() == 0) || cEnd.Closed() })
					if f.Kind == "stall-timeout-or-close" && cEnd.ReadDeadlineArmed {
						cEnd.FireReadTimeout()
					} else {
						c.Close() // the application gives up
					}
				}
			})
			t.caller(c, r)
			callerDone = true
			cerr := c.Close()
			o := observation{Results: r.results, Delivered: delivered, Writes: cEnd.Writes}
			if cerr != nil {
				o.CloseErr = "err"
			}
			return o
		},
		Sig: func(res *vsched.Result, obs interface{}) string {
			o, _ := obs.(observation)
			var sb strings.Builder
			for _, x := range o.Results {
				fmt.Fprintf(&sb, "%s=%v;", x.Label, x.OK)
			}
			return sb.String() + o.CloseErr
		},
		Check: func(res *vsched.Result, obs interface{}) (string, string) {
			if len(res.Panics) > 0 {
				return "panic:" + t.name, strings.Join(res.Panics, "\n")
			}
			if res.Verdict == "deadlock" {
				return "hang:" + t.name + ":" + f.Kind + ":" + blockedSig(res.Blocked), strings.Join(res.Blocked, "; ")
			}
			if res.Verdict != "ok" {
				return "verdict-" + res.Verdict + ":" + t.name, ""
			}
			o, ok := obs.(observation)
			if !ok {
				return "no-observation:" + t.name, ""
			}
			for _, x := range o.Results {
				if x.MustFail && x.OK {
					return "success-without-completion:" + t.name + ":" + x.Label, fmt.Sprintf("command %s reported success although the server never sent its completion", x.Label)
				}
			}
			if f.Kind == "write-error" || f.Kind == "none" {
				if f.Kind == "none" {
					for _, x := range o.Results {
						if x.Tag != 0 && !x.OK {
							return "fault-free-run-fails:" + t.name, fmt.Sprintf("%+v", x)
						}
					}
				}
				if f.Kind == "write-error" {
					// a command whose bytes never left the client cannot have been completed by the
					// server: success is only possible if its completion was really delivered
					for _, x := range o.Results {
						if x.Tag == 0 || !x.OK {
							continue
						}
						if end, known := compl[x.Tag]; known && o.Delivered < end {
							return "success-without-completion:" + t.name + ":" + x.Label, fmt.Sprintf("command %s (T%d) reported success after a write error although only %d of the %d bytes up to the end of its tagged completion were delivered", x.Label, x.Tag, o.Delivered, end)
						}
					}
				}
				return "", ""
			}
			for _, x := range o.Results {
				if x.Tag == 0 || !x.OK {
					continue
				}
				end, known := compl[x.Tag]
				if !known {
					return "engine:unknown-tag", fmt.Sprint(x)
				}
				if f.Offset < end {
					return "success-without-completion:" + t.name + ":" + x.Label, fmt.Sprintf("command %s (T%d) reported success although only %d of the %d bytes up to the end of its tagged completion were delivered", x.Label, x.Tag, f.Offset, end)
				}
			}
			return "", ""
		},
	}
}

// blockedSig names where the client-side threads are stuck (function names only: stable key).
func blockedSig(blocked []string) string {
	var parts []string
	for _, b := range blocked {
		if i := strings.Index(b, " at "); i >= 0 {
			loc := b[i+4:]
			if j := strings.Index(loc, "("); j >= 0 {
				loc = strings.TrimSuffix(loc[j+1:], ")")
			}
			if strings.Contains(loc, "main.") {
				continue // harness threads (caller / server script) — blocked as a consequence
			}
			parts = append(parts, loc)
		}
	}
	if len(parts) == 0 {
		return "harness-only"
	}
	return strings.Join(parts, "+")
}

func enumerate(ts []transcript, thorough bool) []scenarioID {
	var ids []scenarioID
	for ti := range ts {
		total, _ := stream(&ts[ti])
		ids = append(ids, scenarioID{ti, fault{"none", 0}})
		for k := 0; k < len(total); k++ {
			if ts[ti].coarse && k > 0 && total[k-1] != '\n' {
				continue
			}
			for _, kind := range []string{"eof", "error", "stall-timeout-or-close", "stall-close"} {
				ids = append(ids, scenarioID{ti, fault{kind, k}})
			}
		}
		for j := 0; j < 8; j++ { // more write calls than any transcript makes; extra indexes are fault-free runs
			ids = append(ids, scenarioID{ti, fault{"write-error", j}})
		}
	}
	return ids
}

func main() {
	run := vk.Start("C10", "model_checking")
	vimap.Tag(1) // learn the client's tag syntax before any controlled execution
	ts := corpus()
	ids := enumerate(ts, run.Thorough())
	bound := 0
	maxExec := int64(3000)
	if run.Thorough() {
		bound = 1
		maxExec = 15000
	}
	if run.Replay != "" {
		b, _ := os.ReadFile(run.Replay)
		var f struct {
			Detail struct {
				Transcript int
				Fault      fault
				Choices    []int
			}
		}
		json.Unmarshal(b, &f)
		sc := build(&ts[f.Detail.Transcript], f.Detail.Fault)
		res, obs := vx.RunOnce(sc, f.Detail.Choices, 20000, true)
		fmt.Printf("scenario %s choices=%v\nverdict=%s\nobservation=%+v\nblocked=%v\npanics=%v\n", sc.Name, f.Detail.Choices, res.Verdict, obs, res.Blocked, res.Panics)
		for _, l := range res.Log {
			fmt.Println("  ", l)
		}
		if key, detail := sc.Check(res, obs); key != "" {
			run.Violation(key, map[string]interface{}{"transcript": f.Detail.Transcript, "fault": f.Detail.Fault, "choices": f.Detail.Choices, "detail": detail})
		}
		run.AddEvals(1)
		run.Finish()
	}
	// second pass (delay bounding, which reaches windows between a write and the next lock that
	// preemption bound 0 cannot): the fault-free run and EOF at every line boundary of every transcript
	var deep []scenarioID
	for ti := range ts {
		total, _ := stream(&ts[ti])
		deep = append(deep, scenarioID{ti, fault{"none", 0}})
		for k := 0; k < len(total) && !ts[ti].coarse; k++ {
			if k > 0 && total[k-1] == '\n' {
				deep = append(deep, scenarioID{ti, fault{"eof", k}})
			}
		}
	}
	dbound, dmul := 1, int64(10)
	if run.Thorough() {
		dbound, dmul = 2, 4
	}
	nFirst := len(ids)
	ids = append(ids, deep...)
	results := vx.Sharded(len(ids), func(i int) vx.ItemResult {
		id := ids[i]
		sc := build(&ts[id.T], id.Fault)
		// long transcripts (thousands of scheduling points per execution): a small schedule budget
		// per fault scenario; what they are there for shows on the default schedule already
		mx := maxExec
		if ts[id.T].coarse {
			mx = maxExec / 75
		}
		if i >= nFirst {
			r := vx.ExploreItem(sc, dbound, vx.Config{MaxExec: mx * dmul, Delay: true})
			r.Name = "delay:" + r.Name
			return r
		}
		return vx.ExploreItem(sc, bound, vx.Config{MaxExec: mx})
	})
	run.Set("delay_pass_scenarios", int64(len(deep)))
	run.Set("delay_pass_bound", int64(dbound))
	exhaustive := true
	outcomes := map[string]bool{}
	var capped int64
	for i, r := range results {
		if r.EngineErr != "" {
			run.EngineError("%s", r.EngineErr)
		}
		run.AddEvals(r.Executions)
		run.Trans += r.Points
		run.Traces += r.Executions
		if !r.Exhaustive {
			exhaustive = false
			capped++
		}
		for o := range r.Outcomes {
			outcomes[strings.TrimPrefix(r.Name, "delay:")[:strings.Index(strings.TrimPrefix(r.Name, "delay:"), "/")]+"|"+o] = true
		}
		for _, f := range r.Failures {
			id := ids[i]
			run.Violation(f.Key, map[string]interface{}{"scenario": f.Name, "transcript": id.T, "fault": id.Fault, "choices": f.Choices, "detail": f.Detail, "blocked": f.Blocked, "panics": f.Panics})
		}
		if i%997 == 0 {
			run.Sample("scenario", map[string]interface{}{"name": r.Name, "executions": r.Executions, "outcomes": r.Outcomes})
		}
	}
	run.States = int64(len(ids))
	run.NontrivialN(int64(len(outcomes)))
	run.Set("transcripts", int64(len(ts)))
	run.Set("fault_scenarios", int64(len(ids)))
	run.Set("deviation_bound", int64(bound))
	run.Set("scenarios_capped", capped)
	run.Set("max_executions_per_scenario", maxExec)
	run.Exhaustive = exhaustive
	run.Rule = "scenario = (transcript of the corpus, fault): for every byte offset of the server stream {EOF, read error, stall then the client's armed read timeout or else application Close, stall then application Close} and for every client write call a write error; within each scenario DFS over all schedules of the instrumented client (reader, helper goroutines, caller, scripted server, closer) up to the deviation bound. states = fault scenarios, transitions = scheduling points executed, traces = executions on the real code. distinct_nontrivial = distinct (transcript, verdict, per-command outcome vector) combinations observed"
	run.Assume("the caller honours the contract: streaming commands are consumed or closed, literals read to EOF or skipped via Next")
	run.Assume("STARTTLS is not driven under the controlled scheduler (crypto/tls is un-instrumented and would block natively); its plaintext part is covered by C17's fault enumeration")
	run.Assume("in-memory connection: writes never block; a stall without an armed read deadline and without the application closing is excluded by the statement")
	run.Finish()
}
