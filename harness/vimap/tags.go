package vimap

import (
	"fmt"
	"strings"
	"sync"

	"github.com/emersion/go-imap/v2/imapclient"
	"github.com/emersion/go-imap/v2/internal/vsched"
	"github.com/emersion/go-imap/v2/verif/vnet"
)

// The syntax of command tags is the client's private choice ("T1", "A0001", …). Scripted peers
// that have to write a tag before they have read it (pre-computed transcripts) learn the sequence
// once per process: Tag(k) is the tag the real client gives its k-th command.

var (
	tagOnce sync.Once
	tags    []string
)

const learnN = 64

func learn() {
	res := vsched.Run(nil, 200000, false, func() {
		cEnd, sEnd := vnet.Pair("client", "server")
		srv := &Server{End: sEnd, Greeting: "* PREAUTH [CAPABILITY IMAP4rev1] ready\r\n"}
		vsched.Go("server", srv.Run)
		c := imapclient.New(cEnd, nil)
		for i := 0; i < learnN; i++ {
			if err := c.Noop().Wait(); err != nil {
				break
			}
		}
		c.Close()
		tags = append([]string{}, srv.Tags...)
	})
	if res.Verdict != "ok" || len(tags) != learnN {
		// fall back to the historical syntax; the checks will then fail loudly if it is not the client's
		tags = nil
		for i := 1; i <= learnN; i++ {
			tags = append(tags, fmt.Sprintf("T%d", i))
		}
	}
}

// Tag returns the tag of the client's k-th command (k >= 1). Must not be called from inside a
// controlled execution before it was called once outside of one.
func Tag(k int) string {
	tagOnce.Do(learn)
	if k >= 1 && k <= len(tags) {
		return tags[k-1]
	}
	return fmt.Sprintf("T%d", k)
}

// Index is the inverse of Tag (0 if s is not one of the first tags).
func Index(s string) int {
	tagOnce.Do(learn)
	for i, t := range tags {
		if t == s {
			return i + 1
		}
	}
	return 0
}

// Retag rewrites a transcript written with the placeholder tags T1, T2, … (at the start of a line
// and inside an ESEARCH correlator) into the client's real tags.
func Retag(s string) string {
	tagOnce.Do(learn)
	lines := strings.SplitAfter(s, "\r\n")
	for i, l := range lines {
		if len(l) > 1 && l[0] == 'T' {
			j := 1
			for j < len(l) && l[j] >= '0' && l[j] <= '9' {
				j++
			}
			if j > 1 && j < len(l) && l[j] == ' ' {
				var k int
				fmt.Sscanf(l[1:j], "%d", &k)
				lines[i] = Tag(k) + l[j:]
			}
		}
		if p := strings.Index(lines[i], `(TAG "T`); p >= 0 {
			q := p + len(`(TAG "T`)
			j := q
			for j < len(lines[i]) && lines[i][j] >= '0' && lines[i][j] <= '9' {
				j++
			}
			if j > q && j < len(lines[i]) && lines[i][j] == '"' {
				var k int
				fmt.Sscanf(lines[i][q:j], "%d", &k)
				lines[i] = lines[i][:p] + `(TAG "` + Tag(k) + lines[i][j:]
			}
		}
	}
	return strings.Join(lines, "")
}
