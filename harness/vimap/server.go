// Package vimap is a reactive scripted IMAP server for harnesses that run the real client under
// the vsched controlled scheduler. It parses the client's command stream independently of
// imapwire (line / literal framing only), answers each command from a table, records every
// tag and every byte it saw, and can drop the connection at an environment-chosen moment.
package vimap

import (
	"fmt"
	"os"
	"strconv"
	"strings"

	"github.com/emersion/go-imap/v2/internal/vsched"
	"github.com/emersion/go-imap/v2/verif/vnet"
)

// Cmd is one command as the server saw it.
type Cmd struct {
	Tag      string
	Name     string   // upper-case, "UID X" joined
	Line     string   // full text with literal payloads inlined
	Literals []string // payloads
	Sync     []bool   // per literal: was it synchronising
}

type Server struct {
	End      *vnet.End
	Greeting string
	// Respond returns the bytes to send for a command ("" = default "<tag> OK done").
	Respond func(c *Cmd) string
	// AcceptLiteral decides the answer to a synchronising literal header: "" = accept with "+",
	// otherwise the full refusal line(s) to send (e.g. "T1 NO too big\r\n").
	AcceptLiteral func(tag string, n int, index int) string
	// DropChoices > 0: before handling each command the environment may drop the connection
	// (alternative 1 = clean close, 2 = reset); each costs one deviation.
	Drop bool
	// Cut: when answering a command the environment may lose the connection inside the tagged
	// completion line (1 = clean close, 2 = reset); each costs one deviation.
	Cut bool
	// StepYield: yield between the responses of one command (lets other threads interleave).
	Cmds     []Cmd
	Tags     []string
	Raw      []byte // everything received
	buf      []byte
	Dead     bool
	Problems []string
	// BytesAfterRefusal counts payload bytes received for a literal that was refused.
	AfterRefusal []byte
	// OnContinuation is called when "+" is sent (for ordering oracles).
	Events []string
	// Outstanding is true from the moment a synchronising literal header has been read until the
	// server has written its answer ("+" or a refusal).
	Outstanding bool
	// RefusedAt: len(Raw) at the moment each refusal was written.
	RefusedAt []int
	// OnAnswer is called right before the answer to a synchronising literal header is written.
	OnAnswer func(tag string, granted bool)
}

//go:norace
func (s *Server) fill() bool {
	b := make([]byte, 8192)
	n, err := s.End.Read(b)
	if n > 0 {
		s.buf = append(s.buf, b[:n]...)
		s.Raw = append(s.Raw, b[:n]...)
	}
	return err == nil
}

//go:norace
func (s *Server) readLine() (string, bool) {
	for {
		if i := strings.Index(string(s.buf), "\r\n"); i >= 0 {
			line := string(s.buf[:i])
			s.buf = s.buf[i+2:]
			return line, true
		}
		if !s.fill() {
			return "", false
		}
	}
}

//go:norace
func (s *Server) readN(n int) (string, bool) {
	for len(s.buf) < n {
		if !s.fill() {
			return "", false
		}
	}
	p := string(s.buf[:n])
	s.buf = s.buf[n:]
	return p, true
}

//go:norace
func literalHeader(line string) (n int, nonSync bool, ok bool) {
	if !strings.HasSuffix(line, "}") {
		return 0, false, false
	}
	i := strings.LastIndexByte(line, '{')
	if i < 0 {
		return 0, false, false
	}
	d := line[i+1 : len(line)-1]
	if strings.HasSuffix(d, "+") {
		nonSync = true
		d = d[:len(d)-1]
	}
	v, err := strconv.Atoi(d)
	if err != nil {
		return 0, false, false
	}
	return v, nonSync, true
}

//go:norace
func (s *Server) send(b string) {
	if b != "" {
		s.End.Write([]byte(b))
	}
}

// Run serves until the client goes away.
//
//go:norace
func (s *Server) Run() {
	s.send(s.Greeting)
	for {
		if s.Drop {
			switch vsched.Choose(3, 1, "server-drop") {
			case 1:
				s.Dead = true
				s.End.Close()
				return
			case 2:
				s.Dead = true
				s.End.Peer().InjectReadError(vnet.ErrReset)
				s.End.Close()
				return
			}
		}
		first, ok := s.readLine()
		if !ok {
			return
		}
		c := Cmd{}
		f := strings.SplitN(first, " ", 3)
		c.Tag = f[0]
		if len(f) > 1 {
			c.Name = strings.ToUpper(f[1])
			if c.Name == "UID" && len(f) > 2 {
				g := strings.SplitN(f[2], " ", 2)
				c.Name = "UID " + strings.ToUpper(g[0])
			}
		}
		line := first
		full := ""
		refused := false
		for {
			n, nonSync, isLit := literalHeader(line)
			if !isLit {
				full += line
				break
			}
			full += line
			if !nonSync {
				s.Outstanding = true
				ans := ""
				if s.AcceptLiteral != nil {
					ans = s.AcceptLiteral(c.Tag, n, len(c.Literals))
				}
				if ans != "" {
					s.Events = append(s.Events, "refuse "+c.Tag)
					s.RefusedAt = append(s.RefusedAt, len(s.Raw))
					s.Outstanding = false
					if s.OnAnswer != nil {
						s.OnAnswer(c.Tag, false)
					}
					s.send(ans)
					refused = true
					break
				}
				s.Events = append(s.Events, "continue "+c.Tag)
				s.Outstanding = false
				if s.OnAnswer != nil {
					s.OnAnswer(c.Tag, true)
				}
				s.send("+ go ahead\r\n")
			}
			p, ok := s.readN(n)
			if !ok {
				return
			}
			c.Literals = append(c.Literals, p)
			c.Sync = append(c.Sync, !nonSync)
			full += "\r\n" + p
			line, ok = s.readLine()
			if !ok {
				return
			}
		}
		c.Line = full
		s.Cmds = append(s.Cmds, c)
		for _, t := range s.Tags {
			if t == c.Tag {
				s.Problems = append(s.Problems, "duplicate tag on the wire: "+c.Tag)
			}
		}
		s.Tags = append(s.Tags, c.Tag)
		if refused {
			continue
		}
		if c.Name == "IDLE" {
			s.send("+ idling\r\n")
			l, ok := s.readLine()
			if !ok {
				return
			}
			if l != "DONE" {
				s.Problems = append(s.Problems, fmt.Sprintf("expected DONE, got %q", l))
			}
			s.send(c.Tag + " OK idle done\r\n")
			continue
		}
		if c.Name == "AUTHENTICATE" && len(strings.Fields(first)) == 3 && strings.HasSuffix(strings.ToUpper(first), " LOGIN") {
			// two-step mechanism: two challenges, each answered by one client line
			ok := true
			// (go-sasl's LOGIN client sends the user name as initial response: an empty challenge asks
			// for it, then "Password:")
			for _, ch := range []string{"", "UGFzc3dvcmQ6"} {
				s.Events = append(s.Events, "continue "+c.Tag)
				s.send("+ " + ch + "\r\n")
				if _, ok = s.readLine(); !ok {
					return
				}
			}
			s.send(c.Tag + " OK [CAPABILITY IMAP4rev1] authenticated\r\n")
			continue
		}
		if c.Name == "AUTHENTICATE" && len(strings.Fields(first)) == 3 {
			// no initial response: one empty challenge, then the client's answer line
			s.Events = append(s.Events, "continue "+c.Tag)
			s.send("+ \r\n")
			l, ok := s.readLine()
			if !ok {
				return
			}
			if l == "*" {
				s.send(c.Tag + " BAD cancelled\r\n")
				continue
			}
			s.send(c.Tag + " OK [CAPABILITY IMAP4rev1] authenticated\r\n")
			continue
		}
		resp := ""
		if s.Respond != nil {
			resp = s.Respond(&s.Cmds[len(s.Cmds)-1])
		}
		if resp == "" {
			resp = c.Tag + " OK done\r\n"
		}
		if s.Cut {
			// the connection may be lost inside the tagged completion: after "<tag> <status>",
			// before the end of the line (1 = clean close, 2 = reset); each costs one deviation
			k := vsched.Choose(3, 1, "server-cut-inside-completion")
			if os.Getenv("VIMAP_FORCE_CUT") != "" { // debugging aid
				k = 1
			}
			if k != 0 {
				cut := strings.LastIndex(strings.TrimSuffix(resp, "\r\n"), "\r\n") + 2 // start of the last line
				if cut < 2 {
					cut = 0
				}
				f := strings.SplitN(resp[cut:], " ", 3)
				if len(f) >= 3 {
					// "<tag> <status> <first half of the text>": the status word is complete (followed
					// by its delimiter), the line is not
					s.send(resp[:cut] + f[0] + " " + f[1] + " " + f[2][:len(f[2])/2])
				}
				s.Dead = true
				if k == 2 {
					s.End.Peer().InjectReadError(vnet.ErrReset)
				}
				s.End.Close()
				return
			}
		}
		s.send(resp)
		if c.Name == "LOGOUT" {
			s.End.Close()
			return
		}
	}
}
