module github.com/emersion/go-imap/v2/verif

go 1.18

require github.com/emersion/go-imap/v2 v2.0.0-00010101000000-000000000000

require golang.org/x/text v0.14.0 // indirect

replace github.com/emersion/go-imap/v2 => /repo
