module github.com/emersion/go-imap/v2/verif

go 1.18

require (
	github.com/emersion/go-imap/v2 v2.0.0-00010101000000-000000000000
	github.com/emersion/go-sasl v0.0.0-20231106173351-e73c9f7bad43
	golang.org/x/text v0.14.0
)

require (
	github.com/emersion/go-message v0.18.0 // indirect
	github.com/emersion/go-textwrapper v0.0.0-20200911093747-65d896831594 // indirect
)

replace github.com/emersion/go-imap/v2 => /repo
