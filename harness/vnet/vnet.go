// Package vnet is the in-memory network used under the vsched controlled scheduler: every
// blocking Read is a visible wait, every Write a scheduling point, and faults (EOF, error,
// timeout, write error) are injected by the harness.
package vnet

import (
	"errors"
	"io"
	"net"
	"os"
	"time"

	"github.com/emersion/go-imap/v2/internal/vsched"
)

type addr struct{}

//go:norace
func (addr) Network() string { return "vnet" }

//go:norace
func (addr) String() string { return "vnet" }

var ErrReset = errors.New("vnet: connection reset by peer")
var ErrWriteFault = errors.New("vnet: injected write error")

// End is one end of a connection.
type End struct {
	Name    string
	in      [][]byte
	eof     bool  // peer closed: EOF after the queue drains
	rerr    error // injected read error (after the queue drains)
	closed  bool  // closed locally
	timeout bool  // injected: the armed read deadline fires
	peer    *End
	waiting bool

	ReadDeadlineArmed bool
	Writes            int
	FailWriteAt       int // write call index from which writes fail (<0: never)
	Written           []byte
	BytesRead         int
	OnWrite           func(b []byte) // harness hook, called under the baton
}

// Pair returns two connected ends.
//
//go:norace
func Pair(a, b string) (*End, *End) {
	x := &End{Name: a, FailWriteAt: -1}
	y := &End{Name: b, FailWriteAt: -1}
	x.peer, y.peer = y, x
	return x, y
}

//go:norace
func (e *End) Read(b []byte) (int, error) {
	if !vsched.Active() {
		return 0, net.ErrClosed
	}
	e.waiting = true
	vsched.WaitUntil("read "+e.Name, func() bool {
		return len(e.in) > 0 || e.eof || e.rerr != nil || e.closed || e.timeout
	})
	e.waiting = false
	if e.closed {
		return 0, net.ErrClosed
	}
	if len(e.in) > 0 {
		seg := e.in[0]
		n := copy(b, seg)
		if n == len(seg) {
			e.in = e.in[1:]
		} else {
			e.in[0] = seg[n:]
		}
		e.BytesRead += n
		return n, nil
	}
	if e.rerr != nil {
		return 0, e.rerr
	}
	if e.timeout {
		return 0, os.ErrDeadlineExceeded
	}
	return 0, io.EOF
}

//go:norace
func (e *End) Write(b []byte) (int, error) {
	if !vsched.Active() {
		return 0, net.ErrClosed
	}
	vsched.Yield("write " + e.Name)
	if e.closed {
		return 0, net.ErrClosed
	}
	idx := e.Writes
	e.Writes++
	if e.FailWriteAt >= 0 && idx >= e.FailWriteAt {
		return 0, ErrWriteFault
	}
	if e.peer.closed || e.eofSent() {
		// peer gone: like a real socket the first writes may still succeed; we report an error
		return 0, ErrReset
	}
	c := append([]byte{}, b...)
	e.peer.in = append(e.peer.in, c)
	e.Written = append(e.Written, c...)
	if e.OnWrite != nil {
		e.OnWrite(c)
	}
	return len(b), nil
}

//go:norace
func (e *End) eofSent() bool { return false }

//go:norace
func (e *End) Close() error {
	if e.closed {
		return net.ErrClosed
	}
	e.closed = true
	e.peer.eof = true
	return nil
}

// ---- harness-side fault injection (call from a controlled thread) ----

// Deliver queues one segment for this end's reader.
//
//go:norace
func (e *End) Deliver(b []byte) {
	if len(b) > 0 {
		e.in = append(e.in, append([]byte{}, b...))
	}
}

// InjectEOF: the reader sees a clean EOF after the queued segments.
//
//go:norace
func (e *End) InjectEOF() { e.eof = true }

// InjectReadError: the reader sees an error after the queued segments.
//
//go:norace
func (e *End) InjectReadError(err error) { e.rerr = err }

// FireReadTimeout makes the pending/next Read fail with os.ErrDeadlineExceeded (only meaningful
// if the code under test armed a read deadline; see ReadDeadlineArmed).
//
//go:norace
func (e *End) FireReadTimeout() { e.timeout = true }

//go:norace
func (e *End) Closed() bool { return e.closed }

// Waiting reports whether a reader is parked in Read.
//
//go:norace
func (e *End) Waiting() bool { return e.waiting }

//go:norace
func (e *End) Pending() int {
	n := 0
	for _, s := range e.in {
		n += len(s)
	}
	return n
}

//go:norace
func (e *End) LocalAddr() net.Addr { return addr{} }

//go:norace
func (e *End) RemoteAddr() net.Addr { return addr{} }

//go:norace
func (e *End) SetDeadline(t time.Time) error {
	e.ReadDeadlineArmed = !t.IsZero()
	return nil
}

//go:norace
func (e *End) SetReadDeadline(t time.Time) error {
	e.ReadDeadlineArmed = !t.IsZero()
	return nil
}

//go:norace
func (e *End) SetWriteDeadline(t time.Time) error { return nil }

// Peer returns the other end.
//
//go:norace
func (e *End) Peer() *End { return e.peer }

// Listener is a net.Listener whose Accept is a visible wait under the scheduler.
type Listener struct {
	q      []net.Conn
	closed bool
}

//go:norace
func (l *Listener) Accept() (net.Conn, error) {
	if !vsched.Active() {
		return nil, net.ErrClosed
	}
	vsched.WaitUntil("accept", func() bool { return len(l.q) > 0 || l.closed })
	if len(l.q) > 0 {
		c := l.q[0]
		l.q = l.q[1:]
		return c, nil
	}
	return nil, net.ErrClosed
}

//go:norace
func (l *Listener) Close() error { l.closed = true; return nil }

//go:norace
func (l *Listener) Addr() net.Addr { return addr{} }

// Dial creates a connection pair, hands the server end to Accept and returns the client end.
//
//go:norace
func (l *Listener) Dial(name string) *End {
	c, s := Pair(name+"-client", name+"-server")
	l.q = append(l.q, s)
	return c
}
