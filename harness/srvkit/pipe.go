// Package srvkit: in-memory network, independent response tokenizer and a recording stub
// session, used by every check that drives a real imapserver.Conn.
package srvkit

import (
	"errors"
	"io"
	"net"
	"sync"
	"time"
)

// Pipe is an in-memory connection with explicit segment boundaries. The server side is a
// net.Conn whose Read returns at most one client segment; server writes never block.
type Pipe struct {
	mu   sync.Mutex
	cond *sync.Cond

	toSrv       [][]byte
	out         []byte // everything the server wrote
	outRead     int    // consumed by Quiesce / client Read
	srvWaiting  bool   // server goroutine parked in Read with nothing to read
	cliEOF      bool
	cliReset    bool
	srvClosed   bool
	srvReads    int
	srvWrites   int
	FailWriteAt int // server write call index (0-based) from which writes fail; <0 never
	Busy        int // harness-controlled "somebody else is still working" counter
	closedCh    chan struct{}
}

func NewPipe() *Pipe {
	p := &Pipe{FailWriteAt: -1, closedCh: make(chan struct{})}
	p.cond = sync.NewCond(&p.mu)
	return p
}

var ErrReset = errors.New("fakeconn: connection reset by peer")
var ErrWriteFault = errors.New("fakeconn: injected write error")

type addr struct{}

func (addr) Network() string { return "fake" }
func (addr) String() string  { return "fake" }

// ---- server side ----

type SrvConn struct{ P *Pipe }

func (p *Pipe) ServerConn() *SrvConn { return &SrvConn{p} }

func (c *SrvConn) Read(b []byte) (int, error) {
	p := c.P
	p.mu.Lock()
	defer p.mu.Unlock()
	for {
		if p.srvClosed {
			return 0, net.ErrClosed
		}
		if len(p.toSrv) > 0 {
			seg := p.toSrv[0]
			n := copy(b, seg)
			if n == len(seg) {
				p.toSrv = p.toSrv[1:]
			} else {
				p.toSrv[0] = seg[n:]
			}
			p.srvReads++
			return n, nil
		}
		if p.cliReset {
			return 0, ErrReset
		}
		if p.cliEOF {
			return 0, io.EOF
		}
		p.srvWaiting = true
		p.cond.Broadcast()
		p.cond.Wait()
		p.srvWaiting = false
	}
}

func (c *SrvConn) Write(b []byte) (int, error) {
	p := c.P
	p.mu.Lock()
	defer p.mu.Unlock()
	if p.srvClosed {
		return 0, net.ErrClosed
	}
	idx := p.srvWrites
	p.srvWrites++
	if p.FailWriteAt >= 0 && idx >= p.FailWriteAt {
		return 0, ErrWriteFault
	}
	p.out = append(p.out, b...)
	p.cond.Broadcast()
	return len(b), nil
}

func (c *SrvConn) Close() error {
	p := c.P
	p.mu.Lock()
	defer p.mu.Unlock()
	if !p.srvClosed {
		p.srvClosed = true
		close(p.closedCh)
	}
	p.cond.Broadcast()
	return nil
}

func (c *SrvConn) LocalAddr() net.Addr                { return addr{} }
func (c *SrvConn) RemoteAddr() net.Addr               { return addr{} }
func (c *SrvConn) SetDeadline(t time.Time) error      { return nil }
func (c *SrvConn) SetReadDeadline(t time.Time) error  { return nil }
func (c *SrvConn) SetWriteDeadline(t time.Time) error { return nil }

// ---- driver side ----

// Send delivers one segment (the server's Read returns at most this much at once).
func (p *Pipe) Send(b []byte) {
	if len(b) == 0 {
		return
	}
	p.mu.Lock()
	p.toSrv = append(p.toSrv, append([]byte{}, b...))
	p.cond.Broadcast()
	p.mu.Unlock()
}

func (p *Pipe) SendString(s string) { p.Send([]byte(s)) }

// CloseWrite makes the server see a clean EOF after the pending segments.
func (p *Pipe) CloseWrite() {
	p.mu.Lock()
	p.cliEOF = true
	p.cond.Broadcast()
	p.mu.Unlock()
}

// Reset makes the server's next Read (after pending segments) fail with an error.
func (p *Pipe) Reset() {
	p.mu.Lock()
	p.cliReset = true
	p.cond.Broadcast()
	p.mu.Unlock()
}

func (p *Pipe) Notify() { p.mu.Lock(); p.cond.Broadcast(); p.mu.Unlock() }

func (p *Pipe) AddBusy(n int) { p.mu.Lock(); p.Busy += n; p.cond.Broadcast(); p.mu.Unlock() }

var ErrWatchdog = errors.New("fakeconn: watchdog expired (engine error, not a verdict)")

// Quiesce waits until the server goroutine is parked in Read with nothing left to read (and
// Busy is zero), or the server closed the connection. It returns the output produced since the
// previous call. The 60 s watchdog is an engine error, never a verdict.
func (p *Pipe) Quiesce() (out []byte, closed bool, err error) {
	return p.QuiesceUntil(nil)
}

func (p *Pipe) QuiesceUntil(extra func(out []byte) bool) (out []byte, closed bool, err error) {
	deadline := time.AfterFunc(60*time.Second, func() {
		p.mu.Lock()
		p.cond.Broadcast()
		p.mu.Unlock()
	})
	defer deadline.Stop()
	start := time.Now()
	p.mu.Lock()
	defer p.mu.Unlock()
	for {
		quiet := p.srvWaiting && len(p.toSrv) == 0 && p.Busy == 0
		if quiet && extra != nil && !extra(p.out[p.outRead:]) {
			quiet = false
		}
		if quiet || p.srvClosed {
			out = append([]byte{}, p.out[p.outRead:]...)
			p.outRead = len(p.out)
			return out, p.srvClosed, nil
		}
		if time.Since(start) > 59*time.Second {
			out = append([]byte{}, p.out[p.outRead:]...)
			return out, p.srvClosed, ErrWatchdog
		}
		p.cond.Wait()
	}
}

// WaitClosed waits for the server to close its side.
func (p *Pipe) WaitClosed(d time.Duration) bool {
	select {
	case <-p.closedCh:
		return true
	case <-time.After(d):
		return false
	}
}

func (p *Pipe) AllOutput() []byte {
	p.mu.Lock()
	defer p.mu.Unlock()
	return append([]byte{}, p.out...)
}

func (p *Pipe) ServerClosed() bool {
	p.mu.Lock()
	defer p.mu.Unlock()
	return p.srvClosed
}

func (p *Pipe) Stats() (reads, writes int) {
	p.mu.Lock()
	defer p.mu.Unlock()
	return p.srvReads, p.srvWrites
}

// ---- client side as a net.Conn (for TLS clients and the real imapclient) ----

type CliConn struct {
	P *Pipe
	// QuietRead: when no output is pending and the server is quiescent (parked in Read with
	// nothing to read, Busy==0), Read returns ErrQuiet (a temporary timeout net.Error) instead of
	// blocking. crypto/tls does not latch temporary errors, so a tls.Client on top can be read
	// "until quiet" without a clock.
	QuietRead bool
}

type quietError struct{}

func (quietError) Error() string   { return "fakeconn: peer is quiescent, nothing to read" }
func (quietError) Timeout() bool   { return true }
func (quietError) Temporary() bool { return true }

// ErrQuiet is returned by CliConn.Read in QuietRead mode.
var ErrQuiet net.Error = quietError{}

func (p *Pipe) ClientConn() *CliConn { return &CliConn{P: p} }

func (c *CliConn) Read(b []byte) (int, error) {
	p := c.P
	p.mu.Lock()
	defer p.mu.Unlock()
	for {
		if p.outRead < len(p.out) {
			n := copy(b, p.out[p.outRead:])
			p.outRead += n
			return n, nil
		}
		if p.srvClosed {
			return 0, io.EOF
		}
		if p.cliEOF {
			return 0, net.ErrClosed
		}
		if c.QuietRead && p.srvWaiting && len(p.toSrv) == 0 && p.Busy == 0 {
			return 0, ErrQuiet
		}
		p.cond.Wait()
	}
}

func (c *CliConn) Write(b []byte) (int, error) {
	p := c.P
	p.mu.Lock()
	closed := p.srvClosed || p.cliEOF
	p.mu.Unlock()
	if closed {
		return 0, net.ErrClosed
	}
	p.Send(b)
	return len(b), nil
}

func (c *CliConn) Close() error                       { c.P.CloseWrite(); return nil }
func (c *CliConn) LocalAddr() net.Addr                { return addr{} }
func (c *CliConn) RemoteAddr() net.Addr               { return addr{} }
func (c *CliConn) SetDeadline(t time.Time) error      { return nil }
func (c *CliConn) SetReadDeadline(t time.Time) error  { return nil }
func (c *CliConn) SetWriteDeadline(t time.Time) error { return nil }

// ---- listener ----

type Listener struct {
	ch     chan net.Conn
	closed chan struct{}
	once   sync.Once
	Wrap   func(net.Conn) net.Conn // e.g. tls.Server for implicit TLS
}

func NewListener() *Listener {
	return &Listener{ch: make(chan net.Conn), closed: make(chan struct{})}
}

func (l *Listener) Accept() (net.Conn, error) {
	select {
	case c := <-l.ch:
		return c, nil
	case <-l.closed:
		return nil, net.ErrClosed
	}
}

func (l *Listener) Close() error   { l.once.Do(func() { close(l.closed) }); return nil }
func (l *Listener) Addr() net.Addr { return addr{} }

// Dial creates a new pipe and hands its server side to Accept.
func (l *Listener) Dial() *Pipe {
	p := NewPipe()
	var c net.Conn = p.ServerConn()
	if l.Wrap != nil {
		c = l.Wrap(c)
	}
	l.ch <- c
	return p
}

// WaitQuiet waits like Quiesce but does not consume output (for TLS drivers that read the
// output through crypto/tls).
func (p *Pipe) WaitQuiet() (closed bool, err error) {
	deadline := time.AfterFunc(60*time.Second, func() { p.Notify() })
	defer deadline.Stop()
	start := time.Now()
	p.mu.Lock()
	defer p.mu.Unlock()
	for {
		if (p.srvWaiting && len(p.toSrv) == 0 && p.Busy == 0) || p.srvClosed {
			return p.srvClosed, nil
		}
		if time.Since(start) > 59*time.Second {
			return p.srvClosed, ErrWatchdog
		}
		p.cond.Wait()
	}
}
