package srvkit

import (
	"fmt"
	"io"
	"sync"

	imap "github.com/emersion/go-imap/v2"
	"github.com/emersion/go-imap/v2/imapserver"
)

// Call is one recorded backend invocation.
type Call struct {
	Method string
	Args   []interface{}
	State  string // optional annotation by the harness
}

// Stub is a recording imapserver.Session whose behaviour is scripted through function fields;
// nil fields succeed with benign data. It implements Move and Namespace (see StubBasic for a
// session without the optional interfaces).
type Stub struct {
	mu     sync.Mutex
	Calls  []Call
	Closed int
	Pipe   *Pipe

	Fail map[string]error // method name -> error to return

	OnLogin   func(u, p string) error
	OnSelect  func(mailbox string, o *imap.SelectOptions) (*imap.SelectData, error)
	OnList    func(w *imapserver.ListWriter, ref string, patterns []string, o *imap.ListOptions) error
	OnStatus  func(mailbox string, o *imap.StatusOptions) (*imap.StatusData, error)
	OnAppend  func(mailbox string, r imap.LiteralReader, o *imap.AppendOptions) (*imap.AppendData, error)
	OnPoll    func(w *imapserver.UpdateWriter, allowExpunge bool) error
	OnIdle    func(w *imapserver.UpdateWriter, stop <-chan struct{}) error
	OnExpunge func(w *imapserver.ExpungeWriter, uids *imap.UIDSet) error
	OnSearch  func(kind imapserver.NumKind, c *imap.SearchCriteria, o *imap.SearchOptions) (*imap.SearchData, error)
	OnFetch   func(w *imapserver.FetchWriter, numSet imap.NumSet, o *imap.FetchOptions) error
	OnStore   func(w *imapserver.FetchWriter, numSet imap.NumSet, f *imap.StoreFlags, o *imap.StoreOptions) error
	OnCopy    func(numSet imap.NumSet, dest string) (*imap.CopyData, error)
	OnMove    func(w *imapserver.MoveWriter, numSet imap.NumSet, dest string) error
	OnNS      func() (*imap.NamespaceData, error)
}

func (s *Stub) rec(method string, args ...interface{}) error {
	s.mu.Lock()
	defer s.mu.Unlock()
	s.Calls = append(s.Calls, Call{Method: method, Args: args})
	if s.Fail != nil {
		if e, ok := s.Fail[method]; ok {
			return e
		}
	}
	return nil
}

func (s *Stub) Snapshot() []Call {
	s.mu.Lock()
	defer s.mu.Unlock()
	return append([]Call{}, s.Calls...)
}

func (s *Stub) CloseCount() int {
	s.mu.Lock()
	defer s.mu.Unlock()
	return s.Closed
}

func (s *Stub) Close() error {
	s.mu.Lock()
	s.Closed++
	s.mu.Unlock()
	return nil
}

func (s *Stub) Login(u, p string) error {
	if err := s.rec("Login", u, p); err != nil {
		return err
	}
	if s.OnLogin != nil {
		return s.OnLogin(u, p)
	}
	return nil
}

func (s *Stub) Select(mailbox string, o *imap.SelectOptions) (*imap.SelectData, error) {
	if err := s.rec("Select", mailbox, *o); err != nil {
		return nil, err
	}
	if s.OnSelect != nil {
		return s.OnSelect(mailbox, o)
	}
	return &imap.SelectData{Flags: []imap.Flag{imap.FlagSeen}, PermanentFlags: []imap.Flag{imap.FlagSeen}, NumMessages: 3, UIDNext: 4, UIDValidity: 1}, nil
}

func (s *Stub) Create(mailbox string, o *imap.CreateOptions) error {
	var oc imap.CreateOptions
	if o != nil {
		oc = *o
	}
	return s.rec("Create", mailbox, oc)
}
func (s *Stub) Delete(mailbox string) error         { return s.rec("Delete", mailbox) }
func (s *Stub) Rename(mailbox, newName string) error { return s.rec("Rename", mailbox, newName) }
func (s *Stub) Subscribe(mailbox string) error      { return s.rec("Subscribe", mailbox) }
func (s *Stub) Unsubscribe(mailbox string) error    { return s.rec("Unsubscribe", mailbox) }

func (s *Stub) List(w *imapserver.ListWriter, ref string, patterns []string, o *imap.ListOptions) error {
	var oc imap.ListOptions
	if o != nil {
		oc = *o
		if o.ReturnStatus != nil {
			st := *o.ReturnStatus
			oc.ReturnStatus = &st
		}
	}
	if err := s.rec("List", ref, append([]string{}, patterns...), oc); err != nil {
		return err
	}
	if s.OnList != nil {
		return s.OnList(w, ref, patterns, o)
	}
	return nil
}

func (s *Stub) Status(mailbox string, o *imap.StatusOptions) (*imap.StatusData, error) {
	if err := s.rec("Status", mailbox, *o); err != nil {
		return nil, err
	}
	if s.OnStatus != nil {
		return s.OnStatus(mailbox, o)
	}
	n := uint32(1)
	sz := int64(1)
	return &imap.StatusData{Mailbox: mailbox, NumMessages: &n, UIDNext: 2, UIDValidity: 1, NumUnseen: &n, NumDeleted: &n, Size: &sz, AppendLimit: &n, DeletedStorage: &sz}, nil
}

func (s *Stub) Append(mailbox string, r imap.LiteralReader, o *imap.AppendOptions) (*imap.AppendData, error) {
	if s.OnAppend != nil {
		if err := s.rec("Append", mailbox, r.Size(), *o); err != nil {
			return nil, err
		}
		return s.OnAppend(mailbox, r, o)
	}
	b, rerr := io.ReadAll(r)
	if err := s.rec("Append", mailbox, r.Size(), *o, string(b), fmt.Sprint(rerr)); err != nil {
		return nil, err
	}
	return &imap.AppendData{UID: 7, UIDValidity: 1}, nil
}

func (s *Stub) Poll(w *imapserver.UpdateWriter, allowExpunge bool) error {
	if s.OnPoll != nil {
		return s.OnPoll(w, allowExpunge)
	}
	return nil
}

func (s *Stub) Idle(w *imapserver.UpdateWriter, stop <-chan struct{}) error {
	if err := s.rec("Idle"); err != nil {
		return err
	}
	if s.OnIdle != nil {
		return s.OnIdle(w, stop)
	}
	<-stop
	return nil
}

func (s *Stub) Unselect() error { return s.rec("Unselect") }

func (s *Stub) Expunge(w *imapserver.ExpungeWriter, uids *imap.UIDSet) error {
	var u interface{}
	if uids != nil {
		u = uids.String()
	}
	if err := s.rec("Expunge", u); err != nil {
		return err
	}
	if s.OnExpunge != nil {
		return s.OnExpunge(w, uids)
	}
	return nil
}

func (s *Stub) Search(kind imapserver.NumKind, c *imap.SearchCriteria, o *imap.SearchOptions) (*imap.SearchData, error) {
	if err := s.rec("Search", kind, *c, *o); err != nil {
		return nil, err
	}
	if s.OnSearch != nil {
		return s.OnSearch(kind, c, o)
	}
	if kind == imapserver.NumKindUID {
		return &imap.SearchData{All: imap.UIDSetNum(1), UID: true, Min: 1, Max: 1, Count: 1}, nil
	}
	return &imap.SearchData{All: imap.SeqSetNum(1), Min: 1, Max: 1, Count: 1}, nil
}

func (s *Stub) Fetch(w *imapserver.FetchWriter, numSet imap.NumSet, o *imap.FetchOptions) error {
	if err := s.rec("Fetch", numSet, *o); err != nil {
		return err
	}
	if s.OnFetch != nil {
		return s.OnFetch(w, numSet, o)
	}
	return nil
}

func (s *Stub) Store(w *imapserver.FetchWriter, numSet imap.NumSet, f *imap.StoreFlags, o *imap.StoreOptions) error {
	fc := *f
	fc.Flags = append([]imap.Flag{}, f.Flags...)
	if err := s.rec("Store", numSet, fc, *o); err != nil {
		return err
	}
	if s.OnStore != nil {
		return s.OnStore(w, numSet, f, o)
	}
	return nil
}

func (s *Stub) Copy(numSet imap.NumSet, dest string) (*imap.CopyData, error) {
	if err := s.rec("Copy", numSet, dest); err != nil {
		return nil, err
	}
	if s.OnCopy != nil {
		return s.OnCopy(numSet, dest)
	}
	return &imap.CopyData{UIDValidity: 1, SourceUIDs: imap.UIDSetNum(1), DestUIDs: imap.UIDSetNum(9)}, nil
}

func (s *Stub) Move(w *imapserver.MoveWriter, numSet imap.NumSet, dest string) error {
	if err := s.rec("Move", numSet, dest); err != nil {
		return err
	}
	if s.OnMove != nil {
		return s.OnMove(w, numSet, dest)
	}
	return w.WriteCopyData(&imap.CopyData{UIDValidity: 1, SourceUIDs: imap.UIDSetNum(1), DestUIDs: imap.UIDSetNum(9)})
}

func (s *Stub) Namespace() (*imap.NamespaceData, error) {
	if err := s.rec("Namespace"); err != nil {
		return nil, err
	}
	if s.OnNS != nil {
		return s.OnNS()
	}
	return &imap.NamespaceData{Personal: []imap.NamespaceDescriptor{{Prefix: "", Delim: '/'}}}, nil
}

// StubUnauth adds UNAUTHENTICATE support.
type StubUnauth struct{ *Stub }

func (s StubUnauth) Unauthenticate() error { return s.rec("Unauthenticate") }

// StubBasic hides the optional interfaces (Move, Namespace).
type StubBasic struct{ S *Stub }

func (b StubBasic) Close() error                   { return b.S.Close() }
func (b StubBasic) Login(u, p string) error        { return b.S.Login(u, p) }
func (b StubBasic) Select(m string, o *imap.SelectOptions) (*imap.SelectData, error) {
	return b.S.Select(m, o)
}
func (b StubBasic) Create(m string, o *imap.CreateOptions) error { return b.S.Create(m, o) }
func (b StubBasic) Delete(m string) error                        { return b.S.Delete(m) }
func (b StubBasic) Rename(m, n string) error                     { return b.S.Rename(m, n) }
func (b StubBasic) Subscribe(m string) error                     { return b.S.Subscribe(m) }
func (b StubBasic) Unsubscribe(m string) error                   { return b.S.Unsubscribe(m) }
func (b StubBasic) List(w *imapserver.ListWriter, ref string, p []string, o *imap.ListOptions) error {
	return b.S.List(w, ref, p, o)
}
func (b StubBasic) Status(m string, o *imap.StatusOptions) (*imap.StatusData, error) {
	return b.S.Status(m, o)
}
func (b StubBasic) Append(m string, r imap.LiteralReader, o *imap.AppendOptions) (*imap.AppendData, error) {
	return b.S.Append(m, r, o)
}
func (b StubBasic) Poll(w *imapserver.UpdateWriter, a bool) error { return b.S.Poll(w, a) }
func (b StubBasic) Idle(w *imapserver.UpdateWriter, stop <-chan struct{}) error {
	return b.S.Idle(w, stop)
}
func (b StubBasic) Unselect() error { return b.S.Unselect() }
func (b StubBasic) Expunge(w *imapserver.ExpungeWriter, u *imap.UIDSet) error {
	return b.S.Expunge(w, u)
}
func (b StubBasic) Search(k imapserver.NumKind, c *imap.SearchCriteria, o *imap.SearchOptions) (*imap.SearchData, error) {
	return b.S.Search(k, c, o)
}
func (b StubBasic) Fetch(w *imapserver.FetchWriter, n imap.NumSet, o *imap.FetchOptions) error {
	return b.S.Fetch(w, n, o)
}
func (b StubBasic) Store(w *imapserver.FetchWriter, n imap.NumSet, f *imap.StoreFlags, o *imap.StoreOptions) error {
	return b.S.Store(w, n, f, o)
}
func (b StubBasic) Copy(n imap.NumSet, d string) (*imap.CopyData, error) { return b.S.Copy(n, d) }

// Logger collects server log lines (panics show up here).
type Logger struct {
	mu    sync.Mutex
	Lines []string
}

func (l *Logger) Printf(format string, args ...interface{}) {
	l.mu.Lock()
	l.Lines = append(l.Lines, fmt.Sprintf(format, args...))
	l.mu.Unlock()
}

func (l *Logger) Snapshot() []string {
	l.mu.Lock()
	defer l.mu.Unlock()
	return append([]string{}, l.Lines...)
}

// Rev2Caps is the capability set of a server that advertises IMAP4rev1 and IMAP4rev2.
func Rev2Caps() imap.CapSet {
	return imap.CapSet{imap.CapIMAP4rev1: {}, imap.CapIMAP4rev2: {}}
}

// Harness bundles a server, a listener and a logger.
type Harness struct {
	Srv *imapserver.Server
	Ln  *Listener
	Log *Logger
	wg  sync.WaitGroup
}

// NewHarness starts a server; newSession is called per connection with the pipe's server conn.
func NewHarness(opts imapserver.Options) *Harness {
	h := &Harness{Ln: NewListener(), Log: &Logger{}}
	opts.Logger = h.Log
	h.Srv = imapserver.New(&opts)
	h.wg.Add(1)
	go func() {
		defer h.wg.Done()
		h.Srv.Serve(h.Ln)
	}()
	return h
}

func (h *Harness) Close() {
	h.Srv.Close()
	h.wg.Wait()
}

// PipeOf finds the Pipe behind an imapserver.Conn created by this kit (plaintext only).
func PipeOf(c *imapserver.Conn) *Pipe {
	if sc, ok := c.NetConn().(*SrvConn); ok {
		return sc.P
	}
	return nil
}
