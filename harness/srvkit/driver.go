package srvkit

import (
	"fmt"
	"sync"

	"github.com/emersion/go-imap/v2/imapserver"
)

// StubServer is a Harness whose sessions are Stubs; one Dial at a time per StubServer.
type StubServer struct {
	*Harness
	mu       sync.Mutex
	last     *Stub
	Prepare  func(s *Stub)                                       // configure a new stub before use
	Wrap     func(s *Stub) imapserver.Session                    // e.g. StubBasic / StubUnauth; default: the stub itself
	Greeting func(s *Stub) (*imapserver.GreetingData, error)      // default: OK greeting
}

func NewStubServer(opts imapserver.Options) *StubServer {
	ss := &StubServer{}
	opts.NewSession = func(c *imapserver.Conn) (imapserver.Session, *imapserver.GreetingData, error) {
		s := &Stub{Pipe: PipeOf(c)}
		if ss.Prepare != nil {
			ss.Prepare(s)
		}
		ss.mu.Lock()
		ss.last = s
		ss.mu.Unlock()
		var gd *imapserver.GreetingData
		if ss.Greeting != nil {
			var err error
			gd, err = ss.Greeting(s)
			if err != nil {
				return nil, nil, err
			}
		}
		if ss.Wrap != nil {
			return ss.Wrap(s), gd, nil
		}
		return s, gd, nil
	}
	ss.Harness = NewHarness(opts)
	return ss
}

// Driver is the scripted raw client of one connection.
type Driver struct {
	P    *Pipe
	Stub *Stub
	Out  []byte // all output consumed so far
}

// Connect dials and waits for the greeting.
func (ss *StubServer) Connect() (*Driver, []Resp, error) {
	p := ss.Ln.Dial()
	d := &Driver{P: p}
	out, _, err := p.Quiesce()
	if err != nil {
		return nil, nil, err
	}
	d.Out = append(d.Out, out...)
	ss.mu.Lock()
	d.Stub = ss.last
	ss.last = nil
	ss.mu.Unlock()
	resps, rest, perr := ParseResponses(out)
	if perr != nil || len(rest) > 0 {
		return d, resps, fmt.Errorf("malformed greeting %q: %v", out, perr)
	}
	return d, resps, nil
}

// Do sends raw bytes as one segment and waits for quiescence.
func (d *Driver) Do(raw string) (resps []Resp, closed bool, err error) {
	d.P.SendString(raw)
	out, closed, err := d.P.Quiesce()
	d.Out = append(d.Out, out...)
	if err != nil {
		return nil, closed, err
	}
	resps, rest, perr := ParseResponses(out)
	if perr != nil {
		return resps, closed, fmt.Errorf("malformed output %q: %v", out, perr)
	}
	if len(rest) > 0 {
		return resps, closed, fmt.Errorf("incomplete trailing output %q", rest)
	}
	return resps, closed, nil
}

// Tagged returns the tagged completions among resps.
func Tagged(resps []Resp) []Resp {
	var out []Resp
	for _, r := range resps {
		if r.Tag != "*" && r.Tag != "+" {
			out = append(out, r)
		}
	}
	return out
}

// Close closes the client side and waits for the server to finish the connection.
func (d *Driver) Close() {
	d.P.CloseWrite()
	d.P.Quiesce()
}
