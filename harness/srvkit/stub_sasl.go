package srvkit

import (
	imap "github.com/emersion/go-imap/v2"
	"github.com/emersion/go-sasl"
)

// Record appends a call to the stub's log from outside the package (session wrappers and hooks
// defined by a check) and returns the scripted failure Fail[method], if any.
func (s *Stub) Record(method string, args ...interface{}) error { return s.rec(method, args...) }

// StubSASL is StubBasic plus imapserver.SessionSASL (mechanism PLAIN only): Authenticate is
// recorded as "Authenticate"; the PLAIN exchange ends in the stub's Login.
type StubSASL struct{ StubBasic }

func (b StubSASL) AuthenticateMechanisms() []string { return []string{"PLAIN"} }

func (b StubSASL) Authenticate(mech string) (sasl.Server, error) {
	if err := b.S.Record("Authenticate", mech); err != nil {
		return nil, err
	}
	if mech != "PLAIN" {
		return nil, &imap.Error{Type: imap.StatusResponseTypeNo, Text: "SASL mechanism not supported"}
	}
	return sasl.NewPlainServer(func(identity, username, password string) error {
		return b.S.Login(username, password)
	}), nil
}

// Drain returns the log lines collected so far and empties the log (long-running checks that
// open very many connections on one server would otherwise copy an ever-growing log).
func (l *Logger) Drain() []string {
	l.mu.Lock()
	defer l.mu.Unlock()
	out := l.Lines
	l.Lines = nil
	return out
}
