package srvkit

import (
	"crypto/ecdsa"
	"crypto/elliptic"
	"crypto/rand"
	"crypto/tls"
	"crypto/x509"
	"crypto/x509/pkix"
	"errors"
	"io"
	"math/big"
	"net"
	"sync"
	"time"
)

var (
	tlsOnce sync.Once
	tlsSrv  *tls.Config
	tlsCli  *tls.Config
)

// TLSConfigs returns a throw-away server config (self-signed certificate generated at run time)
// and a client config that trusts it.
func TLSConfigs() (server, client *tls.Config) {
	tlsOnce.Do(func() {
		key, err := ecdsa.GenerateKey(elliptic.P256(), rand.Reader)
		if err != nil {
			panic(err)
		}
		tmpl := &x509.Certificate{
			SerialNumber: big.NewInt(1), Subject: pkix.Name{CommonName: "verif"},
			NotBefore: time.Now().Add(-time.Hour), NotAfter: time.Now().Add(24 * time.Hour),
			KeyUsage: x509.KeyUsageDigitalSignature | x509.KeyUsageCertSign, ExtKeyUsage: []x509.ExtKeyUsage{x509.ExtKeyUsageServerAuth},
			DNSNames: []string{"verif"}, IsCA: true, BasicConstraintsValid: true,
		}
		der, err := x509.CreateCertificate(rand.Reader, tmpl, tmpl, &key.PublicKey, key)
		if err != nil {
			panic(err)
		}
		cert, _ := x509.ParseCertificate(der)
		pool := x509.NewCertPool()
		pool.AddCert(cert)
		tlsSrv = &tls.Config{Certificates: []tls.Certificate{{Certificate: [][]byte{der}, PrivateKey: key}}}
		tlsCli = &tls.Config{RootCAs: pool, ServerName: "verif"}
	})
	return tlsSrv, tlsCli
}

// TLSClient performs a client handshake over the pipe's client side (QuietRead mode) and
// returns the TLS connection. The handshake fails with an error (never hangs) when the server
// goes quiescent without answering or closes.
func (p *Pipe) TLSClient() (*tls.Conn, error) {
	_, cc := TLSConfigs()
	raw := p.ClientConn()
	raw.QuietRead = true
	c := tls.Client(quietAsEOF{raw}, cc)
	if err := c.Handshake(); err != nil {
		return nil, err
	}
	return c, nil
}

// quietAsEOF turns ErrQuiet into a hard error only during the handshake: if the peer is quiescent
// while we wait for handshake bytes, the handshake cannot complete.
type quietAsEOF struct{ *CliConn }

var ErrHandshakeStalled = errors.New("fakeconn: peer quiescent during TLS handshake")

// ReadAvailable reads from a TLS (or raw QuietRead) connection until the peer is quiescent or the
// connection ends. closed reports EOF / close.
func ReadAvailable(c net.Conn) (out []byte, closed bool, err error) {
	buf := make([]byte, 65536)
	for {
		n, e := c.Read(buf)
		out = append(out, buf[:n]...)
		if e != nil {
			var ne net.Error
			if errors.As(e, &ne) && ne.Timeout() {
				return out, false, nil
			}
			if e == io.EOF || errors.Is(e, net.ErrClosed) || errors.Is(e, io.ErrUnexpectedEOF) {
				return out, true, nil
			}
			return out, true, e
		}
	}
}
