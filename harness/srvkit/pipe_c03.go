package srvkit

// Additions for C03 (new functions only; nothing existing changes behaviour).
//
// A C03 worker keeps one connection alive for hundreds of thousands of commands, some of which
// carry 70 kB literals; Pipe.out is append-only, so the consumed prefix has to be dropped now and
// then. Diagnostic re-runs keep the output and read it back with OutLen/OutSince.

// DropConsumed discards the server output that the client side has already read. It only acts
// when everything written so far has been consumed, so that no offset held by a concurrent
// reader is invalidated.
func (p *Pipe) DropConsumed() {
	p.mu.Lock()
	if p.outRead == len(p.out) && p.outRead > 0 {
		if cap(p.out) > 1<<20 {
			p.out = nil // let a 70 kB-literal burst go
		} else {
			p.out = p.out[:0]
		}
		p.outRead = 0
	}
	p.mu.Unlock()
}

// OutLen returns the number of bytes the server has written so far (since the last
// DropConsumed).
func (p *Pipe) OutLen() int {
	p.mu.Lock()
	defer p.mu.Unlock()
	return len(p.out)
}

// OutSince returns a copy of the server output from offset start (as returned by OutLen).
func (p *Pipe) OutSince(start int) []byte {
	p.mu.Lock()
	defer p.mu.Unlock()
	if start < 0 || start > len(p.out) {
		start = 0
	}
	return append([]byte{}, p.out[start:]...)
}
