package srvkit

import (
	"net"
	"time"
)

// Additions for C04/C06 (new functions only; nothing existing changes behaviour).

// DialWith is Dial with a hook that runs on the new pipe before the server can see the
// connection (e.g. to set FailWriteAt so that even the greeting write can be made to fail).
func (l *Listener) DialWith(prep func(p *Pipe)) *Pipe {
	p := NewPipe()
	if prep != nil {
		prep(p)
	}
	var c net.Conn = p.ServerConn()
	if l.Wrap != nil {
		c = l.Wrap(c)
	}
	l.ch <- c
	return p
}

// QuiesceWithin is QuiesceUntil with a caller-chosen watchdog (>= 1 s). On expiry it returns
// ErrWatchdog and does not consume the output; what that means (engine error or a reportable
// hang after re-runs) is the caller's business.
func (p *Pipe) QuiesceWithin(d time.Duration, extra func(out []byte) bool) (out []byte, closed bool, err error) {
	if d < time.Second {
		d = time.Second
	}
	deadline := time.AfterFunc(d, func() { p.Notify() })
	defer deadline.Stop()
	start := time.Now()
	p.mu.Lock()
	defer p.mu.Unlock()
	for {
		quiet := p.srvWaiting && len(p.toSrv) == 0 && p.Busy == 0
		if quiet && extra != nil && !extra(p.out[p.outRead:]) {
			quiet = false
		}
		if quiet || p.srvClosed {
			out = append([]byte{}, p.out[p.outRead:]...)
			p.outRead = len(p.out)
			return out, p.srvClosed, nil
		}
		if time.Since(start) >= d {
			out = append([]byte{}, p.out[p.outRead:]...)
			return out, p.srvClosed, ErrWatchdog
		}
		p.cond.Wait()
	}
}

// SendOwned is Send without the defensive copy (for 100 MiB payloads the caller no longer
// touches).
func (p *Pipe) SendOwned(b []byte) {
	if len(b) == 0 {
		return
	}
	p.mu.Lock()
	p.toSrv = append(p.toSrv, b)
	p.cond.Broadcast()
	p.mu.Unlock()
}

// ReleaseOutput drops the pipe's buffers (after a case is judged) so that very large cases do
// not stay reachable through a retained *Pipe.
func (p *Pipe) ReleaseOutput() {
	p.mu.Lock()
	p.out = nil
	p.outRead = 0
	p.toSrv = nil
	p.mu.Unlock()
}
