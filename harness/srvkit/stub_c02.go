package srvkit

// Additions for C02 (new functions only; nothing existing changes behaviour).

// TakeStub returns the Stub of the connection most recently accepted by this StubServer and
// forgets it (what Connect does after the greeting). It returns nil until the server goroutine
// has run NewSession for the dialled pipe, i.e. call it after the greeting has been received.
// One Dial at a time per StubServer.
func (ss *StubServer) TakeStub() *Stub {
	ss.mu.Lock()
	defer ss.mu.Unlock()
	s := ss.last
	ss.last = nil
	return s
}

// (Stub.Record already exists in stub_sasl.go with the same behaviour.)

// NumCalls is len(Snapshot()) without the copy.
func (s *Stub) NumCalls() int {
	s.mu.Lock()
	defer s.mu.Unlock()
	return len(s.Calls)
}

// CallsFrom returns a copy of the calls recorded at index >= n.
func (s *Stub) CallsFrom(n int) []Call {
	s.mu.Lock()
	defer s.mu.Unlock()
	if n > len(s.Calls) {
		n = len(s.Calls)
	}
	return append([]Call{}, s.Calls[n:]...)
}

// ForgetCalls drops the recorded calls (long-lived connections issue millions of commands).
func (s *Stub) ForgetCalls() {
	s.mu.Lock()
	s.Calls = nil
	s.mu.Unlock()
}
