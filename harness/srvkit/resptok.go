package srvkit

import (
	"bytes"
	"fmt"
	"strconv"
	"strings"
)

// Resp is one server response (a line, with the literals it announces inlined).
// This tokenizer is written against RFC 9051 §7/§9 and deliberately does not import imapwire.
type Resp struct {
	Tag      string   // "*", "+" or a command tag
	Text     string   // the response without tag and CRLF; literal payloads replaced by ␀LIT<i>␀
	Raw      []byte   // all bytes of the response including CRLFs and literal payloads
	Literals [][]byte // literal payloads in order
}

func (r Resp) Words() []string { return strings.Fields(r.Text) }

// Kind returns the response keyword: for "* 3 EXISTS" → "EXISTS", for "* OK ..." → "OK",
// for tagged → status.
func (r Resp) Kind() string {
	w := r.Words()
	if len(w) == 0 {
		return ""
	}
	if _, err := strconv.ParseUint(w[0], 10, 64); err == nil && len(w) > 1 && r.Tag == "*" {
		return strings.ToUpper(w[1])
	}
	return strings.ToUpper(w[0])
}

// Num returns the leading number of "* n KIND" responses.
func (r Resp) Num() (uint64, bool) {
	w := r.Words()
	if len(w) < 2 || r.Tag != "*" {
		return 0, false
	}
	n, err := strconv.ParseUint(w[0], 10, 64)
	return n, err == nil
}

// ParseResponses splits server output into responses. rest holds trailing bytes that do not
// form a complete response; err reports malformed framing (bare LF, bad literal header…).
func ParseResponses(out []byte) (resps []Resp, rest []byte, err error) {
	pos := 0
	for pos < len(out) {
		start := pos
		var text strings.Builder
		var lits [][]byte
		for {
			i := bytes.Index(out[pos:], []byte("\r\n"))
			if i < 0 {
				return resps, out[start:], nil
			}
			line := out[pos : pos+i]
			if j := bytes.IndexAny(line, "\r\n\x00"); j >= 0 {
				return resps, out[start:], fmt.Errorf("bare CR/LF/NUL inside response line %q", line)
			}
			pos += i + 2
			// does the line end with a literal header {n} ?
			if n, hdrLen, ok := literalSuffix(line); ok {
				text.Write(line[:len(line)-hdrLen])
				if pos+n > len(out) {
					return resps, out[start:], nil
				}
				lits = append(lits, out[pos:pos+n])
				fmt.Fprintf(&text, "\x00LIT%d\x00", len(lits)-1)
				pos += n
				continue
			}
			text.Write(line)
			break
		}
		full := text.String()
		tag, body := full, ""
		if k := strings.IndexByte(full, ' '); k >= 0 {
			tag, body = full[:k], full[k+1:]
		}
		if tag == "" {
			return resps, out[start:], fmt.Errorf("response with empty tag: %q", full)
		}
		resps = append(resps, Resp{Tag: tag, Text: body, Raw: out[start:pos], Literals: lits})
	}
	return resps, nil, nil
}

func literalSuffix(line []byte) (n int, hdrLen int, ok bool) {
	if len(line) < 3 || line[len(line)-1] != '}' {
		return 0, 0, false
	}
	i := bytes.LastIndexByte(line, '{')
	if i < 0 {
		return 0, 0, false
	}
	digits := line[i+1 : len(line)-1]
	if len(digits) == 0 {
		return 0, 0, false
	}
	for _, c := range digits {
		if c < '0' || c > '9' {
			return 0, 0, false
		}
	}
	v, err := strconv.Atoi(string(digits))
	if err != nil {
		return 0, 0, false
	}
	hl := len(line) - i
	if i > 0 && line[i-1] == '~' {
		hl++
	}
	return v, hl, true
}
