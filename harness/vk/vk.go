// Package vk is the small kit shared by every check: command-line handling, evidence
// files, violation reporting with replay artefacts, the known-findings file, and a
// couple of parallel helpers.
package vk

import (
	"bufio"
	"crypto/sha1"
	"encoding/hex"
	"encoding/json"
	"flag"
	"fmt"
	"os"
	"path/filepath"
	"runtime"
	"sort"
	"strconv"
	"strings"
	"sync"
	"sync/atomic"
	"time"
)

const VerifRoot = "/verif"

// OutRoot is where evidence and replay artefacts go (scratch dir for mutant runs).
var OutRoot = envOr("VERIF_OUT", VerifRoot)

// Run is one invocation of a check.
type Run struct {
	ID     string
	Level  string
	Tier   string
	Seed   int
	Replay string // path of a replay file, when replaying

	start time.Time

	mu          sync.Mutex
	violations  []violation
	knownHits   map[string]int
	known       []knownEntry
	Assumptions []string
	extra       map[string]interface{}
	samples     []interface{}
	sampleSeen  map[string]bool

	Evals      int64 // use AddEvals
	nontrivial sync.Map
	ntCount    int64
	Exhaustive bool
	States     int64
	Trans      int64
	Traces     int64
	Rule       string
}

type violation struct {
	Key    string      `json:"key"`
	Detail interface{} `json:"detail"`
	Path   string      `json:"path"`
}

type knownEntry struct {
	prop, key, text string
}

// Start parses the standard flags and returns a Run.
func Start(id, level string) *Run {
	tier := flag.String("tier", envOr("VERIF_TIER", "quick"), "quick|thorough")
	replay := flag.String("replay", "", "replay file")
	flag.Parse()
	seed := 0
	if s := os.Getenv("VERIF_SEED"); s != "" {
		seed, _ = strconv.Atoi(s)
	}
	if *tier != "quick" && *tier != "thorough" {
		fmt.Fprintf(os.Stderr, "bad tier %q\n", *tier)
		os.Exit(2)
	}
	r := &Run{ID: id, Level: level, Tier: *tier, Seed: seed, Replay: *replay, start: time.Now(),
		knownHits: map[string]int{}, extra: map[string]interface{}{}, sampleSeen: map[string]bool{}}
	r.loadKnown()
	return r
}

func envOr(k, d string) string {
	if v := os.Getenv(k); v != "" {
		return v
	}
	return d
}

func (r *Run) Thorough() bool { return r.Tier == "thorough" }

func (r *Run) loadKnown() {
	f, err := os.Open(filepath.Join(VerifRoot, "known_findings.txt"))
	if err != nil {
		return
	}
	defer f.Close()
	sc := bufio.NewScanner(f)
	for sc.Scan() {
		line := strings.TrimSpace(sc.Text())
		if !strings.HasPrefix(line, "known:") {
			continue // "fixed:" lines and comments suppress nothing
		}
		fields := strings.Fields(strings.TrimPrefix(line, "known:"))
		var e knownEntry
		var rest []string
		for _, f := range fields {
			switch {
			case strings.HasPrefix(f, "property=") && e.prop == "":
				e.prop = strings.TrimPrefix(f, "property=")
			case strings.HasPrefix(f, "key=") && e.key == "":
				e.key = strings.TrimPrefix(f, "key=")
			default:
				rest = append(rest, f)
			}
		}
		e.text = strings.Join(rest, " ")
		if e.prop == r.ID && e.key != "" {
			r.known = append(r.known, e)
		}
	}
}

// Violation records a violation. key is a stable identification of *what* fails (the
// specific input class / call site / history shape); if the committed known-findings file
// lists exactly that key for this property, it is reported as KNOWN-FINDING, else as a
// VIOLATION with a replay artefact.
func (r *Run) Violation(key string, detail interface{}) {
	r.mu.Lock()
	defer r.mu.Unlock()
	for _, k := range r.known {
		if k.key == key {
			r.knownHits[key]++
			return
		}
	}
	for _, v := range r.violations {
		if v.Key == key {
			return // one artefact per key
		}
	}
	if len(r.violations) >= 50 {
		return
	}
	b, _ := json.MarshalIndent(map[string]interface{}{"property": r.ID, "key": key, "tier": r.Tier, "detail": detail}, "", " ")
	h := sha1.Sum([]byte(key))
	dir := filepath.Join(OutRoot, "replays", r.ID)
	os.MkdirAll(dir, 0o755)
	p := filepath.Join(dir, hex.EncodeToString(h[:6])+".json")
	os.WriteFile(p, b, 0o644)
	r.violations = append(r.violations, violation{key, detail, p})
}

func (r *Run) NumViolations() int {
	r.mu.Lock()
	defer r.mu.Unlock()
	return len(r.violations)
}

func (r *Run) AddEvals(n int64) { atomic.AddInt64(&r.Evals, n) }

// Nontrivial counts a distinct non-trivial case, identified by sig.
func (r *Run) Nontrivial(sig string) {
	if _, loaded := r.nontrivial.LoadOrStore(sig, struct{}{}); !loaded {
		atomic.AddInt64(&r.ntCount, 1)
	}
}

// NontrivialN adds n distinct non-trivial cases that the caller has already de-duplicated.
func (r *Run) NontrivialN(n int64) { atomic.AddInt64(&r.ntCount, n) }

func (r *Run) Sample(kind string, s interface{}) {
	r.mu.Lock()
	defer r.mu.Unlock()
	if r.sampleSeen[kind] && len(r.samples) >= 3 {
		return
	}
	if len(r.samples) >= 24 {
		return
	}
	n := 0
	for _, x := range r.samples {
		if m, ok := x.(map[string]interface{}); ok && m["kind"] == kind {
			n++
		}
	}
	if n >= 2 {
		return
	}
	r.sampleSeen[kind] = true
	r.samples = append(r.samples, map[string]interface{}{"kind": kind, "case": s})
}

func (r *Run) Set(k string, v interface{}) {
	r.mu.Lock()
	defer r.mu.Unlock()
	r.extra[k] = v
}

func (r *Run) Add(k string, n int64) {
	r.mu.Lock()
	defer r.mu.Unlock()
	cur, _ := r.extra[k].(int64)
	r.extra[k] = cur + n
}

func (r *Run) Get(k string) int64 {
	r.mu.Lock()
	defer r.mu.Unlock()
	cur, _ := r.extra[k].(int64)
	return cur
}

func (r *Run) Assume(s string) { r.mu.Lock(); r.Assumptions = append(r.Assumptions, s); r.mu.Unlock() }

// EngineError aborts with exit status 2: the machinery, not the property, failed.
func (r *Run) EngineError(format string, a ...interface{}) {
	fmt.Fprintf(os.Stderr, "ENGINE-ERROR property=%s %s\n", r.ID, fmt.Sprintf(format, a...))
	os.Exit(2)
}

// Finish writes the evidence file, prints the verdict lines and exits.
func (r *Run) Finish() {
	r.mu.Lock()
	cov := map[string]interface{}{}
	for k, v := range r.extra {
		cov[k] = v
	}
	cov["evaluations"] = atomic.LoadInt64(&r.Evals)
	cov["distinct_nontrivial"] = atomic.LoadInt64(&r.ntCount)
	cov["rule"] = r.Rule
	cov["exhaustive"] = r.Exhaustive
	if len(r.samples) == 0 {
		r.samples = append(r.samples, "no sample recorded")
	}
	cov["samples"] = r.samples
	if r.Level == "model_checking" {
		cov["states"] = atomic.LoadInt64(&r.States)
		cov["transitions"] = atomic.LoadInt64(&r.Trans)
		cov["traces_validated_against_impl"] = atomic.LoadInt64(&r.Traces)
	}
	kh := map[string]int{}
	for k, v := range r.knownHits {
		kh[k] = v
	}
	cov["known_finding_hits"] = kh
	ev := map[string]interface{}{
		"property_id": r.ID,
		"tier":        r.Tier,
		"seed":        r.Seed,
		"level":       r.Level,
		"coverage":    cov,
		"assumptions": append([]string{}, r.Assumptions...),
		"wall_s":      time.Since(r.start).Seconds(),
		"violations":  len(r.violations),
	}
	vs := append([]violation{}, r.violations...)
	known := append([]knownEntry{}, r.known...)
	r.mu.Unlock()

	if r.Replay == "" {
		b, _ := json.MarshalIndent(ev, "", " ")
		os.MkdirAll(filepath.Join(OutRoot, "evidence"), 0o755)
		if err := os.WriteFile(filepath.Join(OutRoot, "evidence", r.ID+".json"), append(b, '\n'), 0o644); err != nil {
			r.EngineError("cannot write evidence: %v", err)
		}
	}
	fmt.Printf("%s tier=%s evaluations=%d distinct_nontrivial=%d states=%d transitions=%d exhaustive=%v wall=%.1fs\n",
		r.ID, r.Tier, r.Evals, r.ntCount, r.States, r.Trans, r.Exhaustive, time.Since(r.start).Seconds())
	keys := make([]string, 0, len(kh))
	for k := range kh {
		keys = append(keys, k)
	}
	sort.Strings(keys)
	for _, k := range keys {
		txt := ""
		for _, e := range known {
			if e.key == k {
				txt = e.text
			}
		}
		fmt.Printf("KNOWN-FINDING: property=%s key=%s hits=%d %s\n", r.ID, k, kh[k], txt)
	}
	if len(vs) > 0 {
		for _, v := range vs {
			fmt.Printf("VIOLATION property=%s replay=%s key=%s\n", r.ID, v.Path, v.Key)
		}
		os.Exit(1)
	}
	os.Exit(0)
}

// Parallel runs f(i) for i in [0,n) on all cores.
func Parallel(n int, f func(i int)) {
	ParallelW(runtime.GOMAXPROCS(0), n, f)
}

func ParallelW(workers, n int, f func(i int)) {
	if workers < 1 {
		workers = 1
	}
	var next int64 = -1
	var wg sync.WaitGroup
	for w := 0; w < workers; w++ {
		wg.Add(1)
		go func() {
			defer wg.Done()
			for {
				i := int(atomic.AddInt64(&next, 1))
				if i >= n {
					return
				}
				f(i)
			}
		}()
	}
	wg.Wait()
}

// Strings enumerates all strings over alphabet of length 0..maxLen, calling f with a
// reused buffer's string copy. Index order: by length, then odometer.
func Strings(alphabet []string, maxLen int, f func(s string)) {
	var rec func(prefix string, left int)
	rec = func(prefix string, left int) {
		f(prefix)
		if left == 0 {
			return
		}
		for _, a := range alphabet {
			rec(prefix+a, left-1)
		}
	}
	rec("", maxLen)
}

// StringsSharded enumerates like Strings but in parallel, sharded on the first two symbols.
func StringsSharded(alphabet []string, maxLen int, f func(s string)) {
	if maxLen < 2 {
		Strings(alphabet, maxLen, f)
		return
	}
	f("")
	for _, a := range alphabet {
		f(a)
	}
	n := len(alphabet) * len(alphabet)
	Parallel(n, func(i int) {
		p := alphabet[i/len(alphabet)] + alphabet[i%len(alphabet)]
		var rec func(prefix string, left int)
		rec = func(prefix string, left int) {
			f(prefix)
			if left == 0 {
				return
			}
			for _, a := range alphabet {
				rec(prefix+a, left-1)
			}
		}
		rec(p, maxLen-2)
	})
}

// Q renders bytes readably for keys and samples.
func Q(s string) string { return strconv.QuoteToASCII(s) }
